use crate::io::{self, Message, ToValue};
use color_eyre::eyre::{Context, Result};
use lsp_types::{
    notification::{Notification, PublishDiagnostics},
    Diagnostic, DiagnosticSeverity, DidChangeTextDocumentParams, DidCloseTextDocumentParams,
    DidOpenTextDocumentParams, Position, PublishDiagnosticsParams, Range as PosRange,
    TextDocumentContentChangeEvent, Url,
};
use spl_frontend::{error::SplError, AnalyzedSource, ErrorContainer, TextChange};
use std::collections::HashMap;
use tokio::sync::{
    mpsc::{Receiver, Sender},
    oneshot,
};

type TextRange = std::ops::Range<usize>;

#[derive(Debug)]
pub enum DocumentRequest {
    Open(Url, String),
    Change(Url, Vec<TextDocumentContentChangeEvent>),
    Close(Url),
    GetInfo(Url, oneshot::Sender<Option<AnalyzedSource>>),
}

pub async fn open(
    broker: Sender<DocumentRequest>,
    params: DidOpenTextDocumentParams,
) -> Result<()> {
    broker
        .send(DocumentRequest::Open(
            params.text_document.uri,
            params.text_document.text,
        ))
        .await
        .wrap_err("Cannot send document request")?;
    Ok(())
}

pub async fn change(
    broker: Sender<DocumentRequest>,
    params: DidChangeTextDocumentParams,
) -> Result<()> {
    broker
        .send(DocumentRequest::Change(
            params.text_document.uri,
            params.content_changes,
        ))
        .await
        .wrap_err("Cannot send document request")?;
    Ok(())
}

pub async fn close(
    broker: Sender<DocumentRequest>,
    params: DidCloseTextDocumentParams,
) -> Result<()> {
    broker
        .send(DocumentRequest::Close(params.text_document.uri))
        .await
        .wrap_err("Cannot send document request")?;
    Ok(())
}

pub async fn broker(
    mut rx: Receiver<DocumentRequest>,
    iotx: Sender<Message>,
    send_diagnostics: bool,
) {
    let mut docs = HashMap::new();
    while let Some(request) = rx.recv().await {
        match request {
            DocumentRequest::Open(uri, text) => {
                let doc = AnalyzedSource::new(text);
                if send_diagnostics {
                    notify(iotx.clone(), uri.clone(), &doc).await;
                }
                // documents are identified by their complete URI
                docs.insert(uri.to_string(), doc);
            }
            DocumentRequest::Change(uri, changes) => {
                use std::collections::hash_map::Entry;
                match docs.entry(uri.to_string()) {
                    Entry::Occupied(mut entry) => {
                        let doc = entry.get().clone();
                        let text_changes = to_text_changes(changes, doc.text.clone());
                        let new_doc = doc.update(text_changes);
                        if send_diagnostics {
                            notify(iotx.clone(), uri.clone(), &new_doc).await;
                        }
                        entry.insert(new_doc);
                    }
                    Entry::Vacant(_) => { /* This should not happen. Ignoring it. */ }
                };
            }
            DocumentRequest::Close(uri) => {
                docs.remove(uri.as_str());
            }
            DocumentRequest::GetInfo(uri, tx) => {
                let doc = docs.get(uri.as_str()).cloned();
                tx.send(doc).expect("Cannot send messages");
            }
        }
    }
}

async fn notify(iotx: Sender<Message>, uri: Url, doc: &AnalyzedSource) {
    let notification = io::Notification::new(
        PublishDiagnostics::METHOD.to_string(),
        PublishDiagnosticsParams {
            uri: uri.clone(),
            diagnostics: doc
                .errors()
                .iter()
                .map(|err| create_diagnostic(err, &doc.text))
                .collect(),
            version: None,
        }
        .to_value(),
    );
    iotx.send(Message::Notification(notification))
        .await
        .expect("Cannot send messages");
}

fn to_text_changes(changes: Vec<TextDocumentContentChangeEvent>, text: String) -> Vec<TextChange> {
    // Changes are always incremental,
    // so they correlate to the document version modified by the last change.
    // This means we need to update a temporary text here, to get the `TextChange`s,
    // but of course keep the old text,
    // so that the `TextChange`s can actually be applied to the tokens,
    // AST and table in the `spl_frontend`.
    let mut temp_text = text;
    changes
        .into_iter()
        .map(|change| {
            let TextDocumentContentChangeEvent { range, text, .. } = change;
            let text_change = TextChange {
                range: match range {
                    Some(range) => as_index_range(&range, &temp_text),
                    // a change without a range replaces the whole document
                    None => 0..temp_text.len(),
                },
                text,
            };
            temp_text.replace_range(text_change.range.clone(), &text_change.text);
            text_change
        })
        .collect()
}

fn create_diagnostic(err: &SplError, text: &str) -> Diagnostic {
    let SplError(range, message) = err;
    Diagnostic {
        range: as_pos_range(range, text),
        severity: Some(DiagnosticSeverity::ERROR),
        code: None,
        code_description: None,
        source: None,
        message: message.to_string(),
        related_information: None,
        tags: None,
        data: None,
    }
}

/// Converts a string index to a `Position`.
/// If the index is out of bounds, the last possible position is returned.
pub fn as_position(index: usize, text: &str) -> Position {
    let mut line = 0;
    let mut character = 0;
    for (i, c) in text.char_indices() {
        if i == index {
            break;
        }
        if c == '\r' && text[i..].starts_with("\r\n") {
            // belongs to the following line feed
        } else if c == '\n' || c == '\r' {
            // LSP line ends are `\n`, `\r\n` and `\r`
            line += 1;
            character = 0;
        } else {
            // LSP columns count UTF-16 code units
            character += c.len_utf16() as u32;
        }
    }
    Position { line, character }
}

pub fn as_pos_range(range: &TextRange, text: &str) -> PosRange {
    PosRange {
        start: as_position(range.start, text),
        end: as_position(range.end, text),
    }
}

fn as_index_range(pos_range: &PosRange, text: &str) -> TextRange {
    let PosRange { start, end } = pos_range;
    let start = get_insertion_index(start, text);
    let end = get_insertion_index(end, text);
    start..end
}

/// Converts a text `Position` to an index.
/// If the position is out of bounds, the last possible index is returned.
///
/// Note: This is the insertion index,
/// so it can be after the last character.
/// Therefore the text slice should not be indexed with this index.
pub fn get_insertion_index(position: &Position, text: &str) -> usize {
    let mut line = 0;
    let mut character = 0;
    let pos = (position.line, position.character);
    for (i, c) in text.char_indices() {
        if (line, character) == pos {
            return i;
        }
        if c == '\n' || c == '\r' {
            if line == position.line {
                // a column behind the end of a line means the end of that line
                return i;
            }
            // LSP line ends are `\n`, `\r\n` and `\r`
            if c == '\n' || !text[i..].starts_with("\r\n") {
                line += 1;
                character = 0;
            }
        } else {
            // LSP columns count UTF-16 code units
            character += c.len_utf16() as u32;
        }
    }
    text.len()
}

//! Pinned copy of lsp4spl's broker and handlers as of the repaired baseline (PINNED_AT.txt).
//! Used only to decide whether a failing case of a recorded class is answered exactly as the
//! baseline answers it (DESIGN.md 5.4). Never used as an oracle of correctness.
#![allow(dead_code, unused_imports, clippy::all)]
pub mod document;
pub mod error;
pub mod features;
pub mod io;

use crate::document::{as_pos_range, DocumentRequest};
use color_eyre::eyre::Result;
use lsp_types::{FoldingRange, FoldingRangeKind, FoldingRangeParams};
use spl_frontend::{
    ast::GlobalDeclaration,
    tokens::{Token, TokenType},
    Shiftable, ToRange,
};
use tokio::sync::mpsc::Sender;

pub async fn fold(
    doctx: Sender<DocumentRequest>,
    params: FoldingRangeParams,
) -> Result<Vec<FoldingRange>> {
    let doc_params = params.text_document;
    if let Some(doc) = super::get_doc(doc_params.uri, doctx).await? {
        let folding_ranges = doc
            .ast
            .global_declarations
            .iter()
            .filter_map(|gd| match gd.as_ref() {
                GlobalDeclaration::Procedure(p) => Some((p, gd.offset)),
                _ => None,
            })
            .map(|(p, offset)| {
                let proc_tokens = &doc.tokens[p.to_range().shift(offset)];
                let tokens = skip_leading_comments(proc_tokens);
                let text_range = if let (Some(first), Some(last)) = (tokens.first(), tokens.last())
                {
                    first.range.start..last.range.end
                } else {
                    0..0
                };
                let range = as_pos_range(&text_range, &doc.text);
                FoldingRange {
                    start_line: range.start.line,
                    end_line: range.end.line,
                    kind: Some(FoldingRangeKind::Region),
                    ..Default::default()
                }
            })
            .collect();
        Ok(folding_ranges)
    } else {
        Ok(Vec::new())
    }
}

fn skip_leading_comments(tokens: &[Token]) -> &[Token] {
    if let Some((
        Token {
            token_type: TokenType::Comment(_),
            ..
        },
        rest,
    )) = tokens.split_first()
    {
        skip_leading_comments(rest)
    } else {
        tokens
    }
}

use super::{DocumentCursor, ToSpl};
use crate::document::{as_pos_range, DocumentRequest};
use color_eyre::eyre::Result;
use lsp_types::{Hover, HoverContents, HoverParams, MarkupContent, MarkupKind, Range as PosRange};
use spl_frontend::{
    table::{Entry, GlobalEntry, LookupTable, SymbolTable, TableEntry},
    ToRange,
};
use tokio::sync::mpsc::Sender;

fn create_hover(entry: &Entry, range: PosRange) -> Hover {
    let documentation = entry.doc().map_or_else(String::new, |doc| {
        String::new() + "\n---\n" + doc.trim_start() + "\n"
    });
    Hover {
        contents: HoverContents::Markup(MarkupContent {
            kind: MarkupKind::Markdown,
            value: entry.to_string().to_spl() + &documentation,
        }),
        range: Some(range),
    }
}

pub async fn hover(doctx: Sender<DocumentRequest>, params: HoverParams) -> Result<Option<Hover>> {
    let doc_params = params.text_document_position_params;
    if let Some(cursor) = super::doc_cursor(doc_params, doctx).await? {
        if let Some(ident) = &cursor.ident() {
            let DocumentCursor { doc, context, .. } = cursor;
            if let Some(entry) = context {
                match &entry {
                    GlobalEntry::Type(_) => {
                        if let Some(entry) = doc.table.lookup(&ident.value) {
                            return Ok(Some(create_hover(
                                &Entry::from(entry),
                                as_pos_range(&ident.to_range(), &doc.text),
                            )));
                        }
                    }
                    GlobalEntry::Procedure(p) => {
                        let lookup_table = LookupTable {
                            global_table: Some(&doc.table),
                            local_table: Some(&p.local_table),
                        };
                        if let Some(entry) = lookup_table.lookup(&ident.value) {
                            return Ok(Some(create_hover(
                                &entry,
                                as_pos_range(&ident.to_range(), &doc.text),
                            )));
                        }
                    }
                }
            }
        }
    }
    Ok(None)
}

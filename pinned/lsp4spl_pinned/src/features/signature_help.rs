use crate::document::DocumentRequest;
use color_eyre::eyre::Result;
use lsp_types::{
    Documentation, MarkupContent, MarkupKind, ParameterInformation, ParameterLabel, SignatureHelp,
    SignatureHelpParams, SignatureInformation,
};
use spl_frontend::{
    ast::{CallStatement, GlobalDeclaration, ProcedureDeclaration, Reference, Statement},
    table::{GlobalEntry, ProcedureEntry, SymbolTable},
    tokens::{Token, TokenType},
    Shiftable, ToRange, ToTextRange,
};
use tokio::sync::mpsc::Sender;

pub async fn signature_help(
    doctx: Sender<DocumentRequest>,
    params: SignatureHelpParams,
) -> Result<Option<SignatureHelp>> {
    let doc_params = params.text_document_position_params;
    super::doc_cursor(doc_params, doctx).await.map(|cursor| {
        cursor.and_then(|cursor| {
            cursor
                .doc
                .ast
                .global_declarations
                .iter()
                // find the procedure that contains the cursor index
                .find_map(|gd| match gd.as_ref() {
                    GlobalDeclaration::Procedure(pd)
                        if pd
                            .to_text_range(&cursor.doc.tokens[gd.offset..])
                            .contains(&cursor.index) =>
                    {
                        Some((pd, gd.offset))
                    }
                    _ => None,
                })
                // find the call statement that contains the cursor index
                .and_then(|(pd, pd_offset)| {
                    find_call_stmt(pd, &cursor.index, pd_offset, &cursor.doc.tokens)
                })
                // map the call statement to the signature help
                .and_then(|(call_stmt, offset)| {
                    if let Some(GlobalEntry::Procedure(proc_entry)) =
                        &cursor.doc.table.lookup(&call_stmt.name.value)
                    {
                        let parameters = get_param_info(proc_entry);
                        let documentation = proc_entry.doc.as_ref().map(|doc| {
                            Documentation::MarkupContent(MarkupContent {
                                kind: MarkupKind::Markdown,
                                value: String::new() + "---\n" + doc.trim_start() + "\n",
                            })
                        });
                        let tokens = &cursor.doc.tokens[call_stmt.to_range().shift(offset)];
                        let active_parameter = get_active_param(&parameters, tokens, &cursor.index);
                        let help = SignatureInformation {
                            label: proc_entry.to_string(),
                            documentation,
                            parameters: Some(parameters),
                            active_parameter,
                        };
                        Some(SignatureHelp {
                            signatures: vec![help],
                            active_signature: Some(0),
                            active_parameter,
                        })
                    } else {
                        None
                    }
                })
        })
    })
}

fn find_call_stmt<'a>(
    pd: &'a ProcedureDeclaration,
    index: &usize,
    offset: usize,
    tokens: &[Token],
) -> Option<(&'a CallStatement, usize)> {
    pd.statements
        .iter()
        .find_map(|r| find_call_stmt_in_stmt(r.as_ref(), index, offset + r.offset, tokens))
}

fn find_call_stmt_in_stmt<'a>(
    stmt: &'a Statement,
    index: &usize,
    offset: usize,
    tokens: &[Token],
) -> Option<(&'a CallStatement, usize)> {
    fn get_in_option<'a>(
        opt: &'a Option<Box<Reference<Statement>>>,
        index: &usize,
        offset: usize,
        tokens: &[Token],
    ) -> Option<(&'a CallStatement, usize)> {
        opt.iter()
            .map(|boxed| boxed.as_ref())
            .find_map(|r| find_call_stmt_in_stmt(r.as_ref(), index, offset + r.offset, tokens))
    }

    use Statement::*;
    match stmt {
        Block(b) => b
            .statements
            .iter()
            .find_map(|r| find_call_stmt_in_stmt(r.as_ref(), index, offset + r.offset, tokens)),
        If(i) => get_in_option(&i.if_branch, index, offset, tokens)
            .or_else(|| get_in_option(&i.else_branch, index, offset, tokens)),
        While(w) => get_in_option(&w.statement, index, offset, tokens),
        Call(c) if c.to_text_range(&tokens[offset..]).contains(index) => Some((c, offset)),
        _ => None,
    }
}

/// Select the active parameter by checking at which token the cursor is.
fn get_active_param(
    params: &[ParameterInformation],
    tokens: &[Token],
    index: &usize,
) -> Option<u32> {
    if params.is_empty() {
        None
    } else {
        let mut param_index = 0;
        for token in tokens {
            if token.range.start >= *index {
                break;
            }
            if matches!(token.token_type, TokenType::Comma) {
                param_index += 1;
            }
        }
        Some(param_index)
    }
}

fn get_param_info(proc_entry: &ProcedureEntry) -> Vec<ParameterInformation> {
    proc_entry
        .parameters
        .iter()
        .map(|param| ParameterInformation {
            label: ParameterLabel::Simple(param.to_string()),
            documentation: None,
        })
        .collect()
}

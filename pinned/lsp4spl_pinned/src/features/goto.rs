use super::DocumentCursor;
use crate::document::{as_pos_range, DocumentRequest};
use color_eyre::eyre::Result;
use lsp_types::{
    request::{GotoDeclarationParams, GotoImplementationParams, GotoTypeDefinitionParams},
    GotoDefinitionParams, Location,
};
use spl_frontend::{
    table::{DataType, Entry, GlobalEntry, LookupTable, SymbolTable},
    ToRange, ToTextRange,
};
use tokio::sync::mpsc::Sender;

pub async fn declaration(
    doctx: Sender<DocumentRequest>,
    params: GotoDeclarationParams,
) -> Result<Option<Location>> {
    let doc_params = params.text_document_position_params;
    let uri = doc_params.text_document.uri.clone();
    if let Some(cursor) = super::doc_cursor(doc_params, doctx).await? {
        if let Some(ident) = &cursor.ident() {
            let DocumentCursor { doc, context, .. } = cursor;
            if let Some(entry) = context {
                match &entry {
                    GlobalEntry::Type(_) => {
                        // early return for int;
                        if &ident.value == "int" {
                            return Ok(None);
                        }
                        if let Some(entry) = doc.table.lookup(&ident.value) {
                            // predefined entities have no declaration
                            if Entry::from(entry).is_default() {
                                return Ok(None);
                            }
                            // the name's range is relative to the declaration it belongs to
                            let tokens = &doc.tokens[entry.to_range()];
                            return Ok(Some(Location {
                                uri,
                                range: as_pos_range(&entry.to_text_range(tokens), &doc.text),
                            }));
                        }
                    }
                    GlobalEntry::Procedure(p) => {
                        let lookup_table = LookupTable {
                            global_table: Some(&doc.table),
                            local_table: Some(&p.local_table),
                        };
                        if let Some(entry) = lookup_table.lookup(&ident.value) {
                            // early return for default values
                            if entry.is_default() {
                                return Ok(None);
                            }
                            let tokens = match entry {
                                Entry::Procedure(param_dec) => &doc.tokens[param_dec.to_range()],
                                Entry::Type(type_dec) => &doc.tokens[type_dec.to_range()],
                                Entry::Variable(var) | Entry::Parameter(var) => {
                                    &doc.tokens[p.to_range()][var.to_range()]
                                }
                            };
                            return Ok(Some(Location {
                                uri,
                                range: as_pos_range(&entry.to_text_range(tokens), &doc.text),
                            }));
                        }
                    }
                }
            }
        }
    }
    Ok(None)
}

/// Calls `goto::declaration` because in SPL, there is no conceptual difference
/// between declaration and definition
pub async fn definition(
    doctx: Sender<DocumentRequest>,
    params: GotoDefinitionParams,
) -> Result<Option<Location>> {
    declaration(doctx, params).await
}

pub async fn type_definition(
    doctx: Sender<DocumentRequest>,
    params: GotoTypeDefinitionParams,
) -> Result<Option<Location>> {
    let doc_params = params.text_document_position_params;
    let uri = doc_params.text_document.uri.clone();
    if let Some(cursor) = super::doc_cursor(doc_params, doctx).await? {
        if let Some(ident) = &cursor.ident() {
            let DocumentCursor { doc, context, .. } = cursor;
            if let Some(entry) = context {
                match &entry {
                    GlobalEntry::Type(_) => {
                        // early return for int;
                        if &ident.value == "int" {
                            return Ok(None);
                        }
                        if let Some(entry) = doc.table.lookup(&ident.value) {
                            match &entry {
                                GlobalEntry::Type(t) => {
                                    let tokens = &doc.tokens[t.to_range()];
                                    return Ok(Some(Location {
                                        uri,
                                        range: as_pos_range(
                                            &entry.to_text_range(tokens),
                                            &doc.text,
                                        ),
                                    }));
                                }
                                GlobalEntry::Procedure(_) => { /* no type definition */ }
                            }
                        }
                    }
                    GlobalEntry::Procedure(p) => {
                        let lookup_table = LookupTable {
                            global_table: Some(&doc.table),
                            local_table: Some(&p.local_table),
                        };
                        if let Some(entry) = lookup_table.lookup(&ident.value) {
                            match &entry {
                                Entry::Type(t) => {
                                    // early return for int;
                                    if &ident.value == "int" {
                                        return Ok(None);
                                    }
                                    let tokens = &doc.tokens[t.to_range()];
                                    return Ok(Some(Location {
                                        uri,
                                        range: as_pos_range(
                                            &entry.to_text_range(tokens),
                                            &doc.text,
                                        ),
                                    }));
                                }
                                Entry::Procedure(_) => { /* no type definition */ }
                                Entry::Variable(v) | Entry::Parameter(v) => {
                                    if let Some(DataType::Array { creator, .. }) = &v.data_type {
                                        // The creator of an anonymous array type is the variable
                                        // itself, which is no type declaration
                                        // (even if a global of that name exists).
                                        if let Some(entry @ GlobalEntry::Type(t)) =
                                            doc.table.lookup(creator)
                                        {
                                            if t.data_type == v.data_type {
                                                return Ok(Some(Location {
                                                    uri,
                                                    range: as_pos_range(
                                                        &entry.to_text_range(
                                                            &doc.tokens[t.to_range()],
                                                        ),
                                                        &doc.text,
                                                    ),
                                                }));
                                            }
                                        }
                                    }
                                    /* cannot look up primitive types */
                                }
                            }
                        }
                    }
                }
            }
        }
    }
    Ok(None)
}

/// Essentially the same as `goto::declaration`, but only for procedures
pub async fn implementation(
    doctx: Sender<DocumentRequest>,
    params: GotoImplementationParams,
) -> Result<Option<Location>> {
    let doc_params = params.text_document_position_params;
    let uri = doc_params.text_document.uri.clone();
    if let Some(cursor) = super::doc_cursor(doc_params, doctx).await? {
        if let Some(ident) = &cursor.ident() {
            let DocumentCursor { doc, context, .. } = cursor;
            if let Some(entry) = context {
                match &entry {
                    GlobalEntry::Procedure(p) => {
                        let lookup_table = LookupTable {
                            global_table: Some(&doc.table),
                            local_table: Some(&p.local_table),
                        };
                        if let Some(entry) = lookup_table.lookup(&ident.value) {
                            // predefined procedures have no implementation in this document
                            if entry.is_default() {
                                return Ok(None);
                            }
                            if let Entry::Procedure(target) = entry {
                                // the name's range is relative to the declaration it belongs to
                                let tokens = &doc.tokens[target.to_range()];
                                return Ok(Some(Location {
                                    uri,
                                    range: as_pos_range(&entry.to_text_range(tokens), &doc.text),
                                }));
                            }
                            /* no implementation for types and variables */
                        }
                    }
                    GlobalEntry::Type(_) => { /* no implementation for types */ }
                }
            }
        }
    }
    Ok(None)
}

use super::{DataType, GlobalTable, LocalTable, TypeEntry};
use crate::{
    ast::Identifier,
    table::{GlobalEntry, ProcedureEntry, VariableEntry},
};
use std::collections::HashMap;

const PRINTI: &str = "printi";
const PRINTC: &str = "printc";
const READI: &str = "readi";
const READC: &str = "readc";
const EXIT: &str = "exit";
const TIME: &str = "time";
const CLEARALL: &str = "clearAll";
const SETPIXEL: &str = "setPixel";
const DRAWLINE: &str = "drawLine";
const DRAWCIRCLE: &str = "drawCircle";
const INT: &str = "int";

pub const DEFAULT_ENTRIES: [&str; 11] = [
    PRINTI, PRINTC, READI, READC, EXIT, TIME, CLEARALL, SETPIXEL, DRAWLINE, DRAWCIRCLE, INT,
];

impl GlobalTable {
    pub fn initialized() -> Self {
        fn procedure_entry(
            name: Identifier,
            documentation: &str,
            parameters: Vec<VariableEntry>,
        ) -> GlobalEntry {
            GlobalEntry::Procedure(ProcedureEntry {
                name,
                local_table: LocalTable::default(),
                parameters,
                range: 0..0,
                doc: Some(documentation.to_string()),
            })
        }

        Self {
            entries: HashMap::from([
                // basic type int
                (
                    INT.to_string(),
                    GlobalEntry::Type(TypeEntry {
                        name: Identifier::new(INT.to_string(), 0..0),
                        data_type: Some(DataType::Int),
                        range: 0..0,doc: None,
                    }),
                ),
                // printi(i: int)
                (
                    PRINTI.to_string(),
                    procedure_entry(
                        Identifier::new(PRINTI.to_string(), 0..0),
                        "Gibt den Wert von i auf dem Textbildschirm aus.",
                        vec![VariableEntry {
                            name: Identifier::new("i".to_string(), 0..0),
                            is_ref: false,
                            data_type: Some(DataType::Int),
                            range: 0..0,doc: None,
                        }],
                    ),
                ),
                // printc(i: int)
                (
                   PRINTC.to_string(),
                    procedure_entry(
                        Identifier::new(PRINTC.to_string(), 0..0),
                        "Gibt das Zeichen mit dem ASCII-Code i auf dem Textbildschirm aus.",
                        vec![VariableEntry {
                            name: Identifier::new("i".to_string(), 0..0),
                            is_ref: false,
                            data_type: Some(DataType::Int),
                            range: 0..0,doc: None,
                        }],
                ),
                ),
                // readi(ref i: int)
                (
                    READI.to_string(),
                    procedure_entry(
                        Identifier::new(READI.to_string(), 0..0),
                        "Liest eine ganze Zahl von der Tastatur ein und speichert sie in i.
Die Eingabe erfolgt zeilenweise gepuffert mit Echo.",
                        vec![VariableEntry {
                            name: Identifier::new("i".to_string(), 0..0),
                            is_ref: true,
                            data_type: Some(DataType::Int),
                            range: 0..0,doc: None,
                        }],
                    ),
                ),
                // readc(ref i: int)
                (
                    READC.to_string(),
                    procedure_entry(
                        Identifier::new(READC.to_string(), 0..0),
                        "Liest ein Zeichen von der Tastatur ein und speichert seinen ASCII-Code in i.
Die Eingabe erfolgt ungepuffert und ohne Echo.",
                        vec![VariableEntry {
                            name: Identifier::new("i".to_string(), 0..0),
                            is_ref: true,
                            data_type: Some(DataType::Int),
                            range: 0..0,doc: None,
                        }],
                    ),
                ),
                // exit()
                (
                    EXIT.to_string(),
                    procedure_entry(
                        Identifier::new(EXIT.to_string(), 0..0),
"Beendet das laufende Programm und kehrt nicht zum Aufrufer zurück.",
                        vec![]),
                ),
                // time(ref i: int)
                (
                    TIME.to_string(),
                    procedure_entry(
                        Identifier::new(TIME.to_string(), 0..0),
                        "Gibt in i die seit dem Start des Programms vergangene Zeit in Sekun- den zurück.",
                        vec![VariableEntry {
                            name: Identifier::new("i".to_string(), 0..0),
                            is_ref: true,
                            data_type: Some(DataType::Int),
                            range: 0..0,doc: None,
                        }],
                    ),
                ),
                // clearAll(color: int)
                (
                    CLEARALL.to_string(),
                    procedure_entry(
                        Identifier::new(CLEARALL.to_string(), 0..0),
                        "Löscht den Graphikbildschirm mit der Farbe color.
Farben werden durch Angabe der R-, G- und B-Komponenten nach dem Muster 0x00RRGGBB gebildet.
Es stehen also für jede Komponente die Werte 0..255 zur Verfügung.",
                        vec![VariableEntry {
                            name: Identifier::new("color".to_string(), 0..0),
                            is_ref: false,
                            data_type: Some(DataType::Int),
                            range: 0..0,doc: None,
                        }],
                    ),
                ),
                // setPixel(x: int, y: int, color: int)
                (
                  SETPIXEL.to_string(),
                    procedure_entry(
                        Identifier::new(SETPIXEL.to_string(), 0..0),
                        "Setzt den Pixel mit den Koordinaten x und y auf die Farbe color.
Grenzen: 0<= x <640, 0 <= y < 480.",
                        vec![
                            VariableEntry {
                                name: Identifier::new("x".to_string(), 0..0),
                                is_ref: false,
                                data_type: Some(DataType::Int),
                                range: 0..0,doc: None,
                            },
                            VariableEntry {
                                name: Identifier::new("y".to_string(), 0..0),
                                is_ref: false,
                                data_type: Some(DataType::Int),
                                range: 0..0,doc: None,
                            },
                            VariableEntry {
                                name: Identifier::new("z".to_string(), 0..0),
                                is_ref: false,
                                data_type: Some(DataType::Int),
                                range: 0..0,doc: None,
                            },
                        ],
                    ),
                ),
                // drawLine(x1: int, y1: int, x2: int, y2: int, color: int)
                (
                   DRAWLINE.to_string(),
                    procedure_entry(
                        Identifier::new(DRAWLINE.to_string(), 0..0),
                        "Zeichnet eine gerade Linie von (x1|y1) nach (x2|y2) mit der Farbe color.
Grenzen wie bei setPixel.",
                        vec![
                            VariableEntry {
                                name: Identifier::new("x1".to_string(), 0..0),
                                is_ref: false,
                                data_type: Some(DataType::Int),
                                range: 0..0,doc: None,
                            },
                            VariableEntry {
                                name: Identifier::new("y1".to_string(), 0..0),
                                is_ref: false,
                                data_type: Some(DataType::Int),
                                range: 0..0,doc: None,
                            },
                            VariableEntry {
                                name: Identifier::new("x2".to_string(), 0..0),
                                is_ref: false,
                                data_type: Some(DataType::Int),
                                range: 0..0,doc: None,
                            },
                            VariableEntry {
                                name: Identifier::new("y2".to_string(), 0..0),
                                is_ref: false,
                                data_type: Some(DataType::Int),
                                range: 0..0,doc: None,
                            },
                            VariableEntry {
                                name: Identifier::new("color".to_string(), 0..0),
                                is_ref: false,
                                data_type: Some(DataType::Int),
                                range: 0..0,doc: None,
                            },
                        ],
                    ),
                ),
                // drawCircle(x0: int, y0: int, radius: int, color: int)
                (
                  DRAWCIRCLE.to_string(),
                    procedure_entry(
                        Identifier::new(DRAWCIRCLE.to_string(), 0..0),
                        "Zeichnet einen Kreis um den Mittelpunkt (x0|y0) mit dem Radius radius und der Farbe color.",
                        vec![
                            VariableEntry {
                                name: Identifier::new("x0".to_string(), 0..0),
                                is_ref: false,
                                data_type: Some(DataType::Int),
                                range: 0..0,doc: None,
                            },
                            VariableEntry {
                                name: Identifier::new("y0".to_string(), 0..0),
                                is_ref: false,
                                data_type: Some(DataType::Int),
                                range: 0..0,doc: None,
                            },
                            VariableEntry {
                                name: Identifier::new("radius".to_string(), 0..0),
                                is_ref: false,
                                data_type: Some(DataType::Int),
                                range: 0..0,doc: None,
                            },
                            VariableEntry {
                                name: Identifier::new("color".to_string(), 0..0),
                                is_ref: false,
                                data_type: Some(DataType::Int),
                                range: 0..0,doc: None,
                            },
                        ],
                    ),
                ),
            ]),
        }
    }

    pub fn initialize(entries: Vec<(String, GlobalEntry)>) -> Self {
        let mut table = Self::initialized();
        for (k, v) in entries {
            table.entries.insert(k, v);
        }
        table
    }
}

impl std::fmt::Debug for GlobalTable {
    fn fmt(&self, f: &mut std::fmt::Formatter<'_>) -> std::fmt::Result {
        f.debug_map()
            .entries(
                self.entries
                    .iter()
                    .filter(|(k, _)| !DEFAULT_ENTRIES.contains(&k.as_str())),
            )
            .finish()
    }
}

use crate::tokens::TokenStream;
use crate::Shiftable;
use crate::{ast::Identifier, ToRange};
use std::fmt::{Debug, Display};
use std::ops::Range;
use thiserror::Error;

#[derive(Clone, Debug, Error, PartialEq, Eq)]
#[error("{1}")]
pub struct SplError(pub Range<usize>, pub ErrorMessage);

impl ToRange for SplError {
    fn to_range(&self) -> Range<usize> {
        self.0.clone()
    }
}

impl Shiftable for SplError {
    fn shift(self, offset: usize) -> Self {
        Self(self.0.shift(offset), self.1)
    }
}

impl Shiftable for Vec<SplError> {
    fn shift(self, offset: usize) -> Self {
        self.into_iter().map(|err| err.shift(offset)).collect()
    }
}

impl Identifier {
    pub fn to_error<M, T>(&self, msg: M) -> SplError
    where
        M: Fn(String) -> T,
        T: Into<ErrorMessage>,
    {
        // Identifier position is the last in the range (which might contain comments)
        let end_pos = self.to_range().end;
        assert!(end_pos > 0, "Identifier must contain at least one token");
        let start_pos = end_pos - 1;
        SplError(start_pos..end_pos, msg(self.value.clone()).into())
    }
}

#[derive(Clone, Debug, PartialEq, Eq)]
pub enum ErrorMessage {
    LexErrorMessage(LexErrorMessage),
    ParseErrorMessage(ParseErrorMessage),
    BuildErrorMessage(BuildErrorMessage),
    SemanticErrorMessage(SemanticErrorMessage),
}

impl From<LexErrorMessage> for ErrorMessage {
    fn from(value: LexErrorMessage) -> Self {
        Self::LexErrorMessage(value)
    }
}

impl From<ParseErrorMessage> for ErrorMessage {
    fn from(value: ParseErrorMessage) -> Self {
        Self::ParseErrorMessage(value)
    }
}

impl From<BuildErrorMessage> for ErrorMessage {
    fn from(value: BuildErrorMessage) -> Self {
        Self::BuildErrorMessage(value)
    }
}

impl From<SemanticErrorMessage> for ErrorMessage {
    fn from(value: SemanticErrorMessage) -> Self {
        Self::SemanticErrorMessage(value)
    }
}

impl Display for ErrorMessage {
    fn fmt(&self, f: &mut std::fmt::Formatter<'_>) -> std::fmt::Result {
        use ErrorMessage::*;
        write!(
            f,
            "{}",
            match self {
                LexErrorMessage(msg) => msg.to_string(),
                ParseErrorMessage(msg) => msg.to_string(),
                BuildErrorMessage(msg) => msg.to_string(),
                SemanticErrorMessage(msg) => msg.to_string(),
            }
        )
    }
}

#[derive(Debug, PartialEq, Eq, Clone)]
pub enum LexErrorMessage {
    MissingClosingTick,
    ExpectedHexNumber,
    InvalidIntLit(String),
}
impl Display for LexErrorMessage {
    fn fmt(&self, f: &mut std::fmt::Formatter<'_>) -> std::fmt::Result {
        let display = match self {
            Self::MissingClosingTick => "missing closing `'`".to_string(),
            Self::ExpectedHexNumber => "expected `hexadecimal number`".to_string(),
            Self::InvalidIntLit(i) => format!("invalid integer literal: `{}`", i),
        };
        writeln!(f, "{}", display)
    }
}

#[derive(Debug, PartialEq, Eq, Clone)]
pub enum ParseErrorMessage {
    MissingOpening(char),
    MissingClosing(char),
    MissingTrailingSemic,
    UnexpectedCharacters(String),
    ExpectedToken(String),
    ConfusedToken(String, String),
}

impl Display for ParseErrorMessage {
    fn fmt(&self, f: &mut std::fmt::Formatter<'_>) -> std::fmt::Result {
        let display = match self {
            Self::MissingOpening(c) => format!("missing opening `{}`", c),
            Self::MissingClosing(c) => format!("missing closing `{}`", c),
            Self::MissingTrailingSemic => "missing trailing `;`".to_string(),
            Self::UnexpectedCharacters(s) => format!("unexpected `{}`", s),
            Self::ExpectedToken(t) => format!("expected `{}`", t),
            Self::ConfusedToken(expected, got) => {
                format!("expected `{}`, but got `{}`", expected, got)
            }
        };
        writeln!(f, "{}", display)
    }
}

#[derive(Debug, PartialEq, Eq, Clone)]
#[repr(usize)]
pub enum BuildErrorMessage {
    UndefinedType(String) = 101,
    NotAType(String),
    RedeclarationAsType(String),
    MustBeAReferenceParameter(String),
    RedeclarationAsProcedure(String),
    RedeclarationAsParameter(String),
    RedeclarationAsVariable(String),
    MainIsMissing = 125,
    MainIsNotAProcedure,
    MainMustNotHaveParameters,
}

impl Display for BuildErrorMessage {
    fn fmt(&self, f: &mut std::fmt::Formatter<'_>) -> std::fmt::Result {
        let display = match self {
            Self::UndefinedType(name) => format!("undefined type `{}`", name),
            Self::NotAType(name) => format!("`{}` is not a type", name),
            Self::RedeclarationAsType(name) => format!("redeclaration of `{}` as type", name),
            Self::MustBeAReferenceParameter(name) => {
                format!("parameter `{}` must be a reference parameter", name)
            }
            Self::RedeclarationAsProcedure(name) => {
                format!("redeclaration of `{}` as procedure", name)
            }
            Self::RedeclarationAsParameter(name) => {
                format!("redeclaration of `{}` as parameter", name)
            }
            Self::RedeclarationAsVariable(name) => {
                format!("redeclaration of `{}` as variable", name)
            }
            Self::MainIsMissing => "procedure `main` is missing".to_string(),
            Self::MainIsNotAProcedure => "`main` is not a procedure".to_string(),
            Self::MainMustNotHaveParameters => {
                "procedure `main` must not have any parameters".to_string()
            }
        };
        writeln!(f, "{}", display)
    }
}

#[derive(Debug, PartialEq, Eq, Clone)]
#[repr(usize)]
pub enum SemanticErrorMessage {
    AssignmentHasDifferentTypes = 108,
    AssignmentRequiresIntegers,
    IfConditionMustBeBoolean,
    WhileConditionMustBeBoolean,
    UndefinedProcedure(String),
    CallOfNoneProcedure(String),
    ArgumentsTypeMismatch(String, usize),
    ArgumentMustBeAVariable(String, usize),
    TooFewArguments(String),
    TooManyArguments(String),
    OperatorDifferentTypes,
    ComparisonNonInteger,
    ArithmeticOperatorNonInteger,
    UndefinedVariable(String),
    NotAVariable(String),
    IndexingNonArray,
    IndexingWithNonInteger,
}

impl Display for SemanticErrorMessage {
    fn fmt(&self, f: &mut std::fmt::Formatter<'_>) -> std::fmt::Result {
        let display = match self {
            Self::AssignmentHasDifferentTypes => "assignment has different types".to_string(),
            Self::AssignmentRequiresIntegers => "assignment requires integer variable".to_string(),
            Self::IfConditionMustBeBoolean => {
                "`if` test expression must be of type boolean".to_string()
            }
            Self::WhileConditionMustBeBoolean => {
                "`while` test expression must be of type boolean".to_string()
            }
            Self::UndefinedProcedure(name) => format!("undefined procedure `{}`", name),
            Self::CallOfNoneProcedure(name) => format!("call of non-procedure `{}`", name),
            Self::ArgumentsTypeMismatch(name, index) => {
                format!("procedure `{}` argument `{}` type mismatch", name, index)
            }
            Self::ArgumentMustBeAVariable(name, index) => {
                format!(
                    "procedure `{}` argument `{}` must be a variable",
                    name, index
                )
            }
            Self::TooFewArguments(name) => {
                format!("procedure `{}` called with too few arguments", name)
            }
            Self::TooManyArguments(name) => {
                format!("procedure `{}` called with too many arguments", name)
            }
            Self::OperatorDifferentTypes => "expression combines different types".to_string(),
            Self::ComparisonNonInteger => "comparison requires integer operands".to_string(),
            Self::ArithmeticOperatorNonInteger => {
                "arithmetic operation requires integer operands".to_string()
            }
            Self::UndefinedVariable(name) => format!("undefined variable `{}`", name),
            Self::NotAVariable(name) => format!("`{}` is not a variable", name),
            Self::IndexingNonArray => "illegal indexing a non-array".to_string(),
            Self::IndexingWithNonInteger => "illegal indexing with a non-integer".to_string(),
        };
        writeln!(f, "{}", display)
    }
}

#[derive(Debug, Error)]
pub struct OperatorConversionError<T: Debug> {
    item: T,
}

impl<T: Debug> OperatorConversionError<T> {
    pub const fn new(item: T) -> Self {
        Self { item }
    }
}

impl<T: Debug> Display for OperatorConversionError<T> {
    fn fmt(&self, f: &mut std::fmt::Formatter<'_>) -> std::fmt::Result {
        writeln!(f, "Cannot convert `{:?}` to an operator", self.item)
    }
}

#[derive(Debug, Error)]
pub struct KeyAlreadyExistsError<T: Debug> {
    key: T,
}

impl<T: Debug> KeyAlreadyExistsError<T> {
    pub const fn new(key: T) -> Self {
        Self { key }
    }
}

impl<T: Debug> Display for KeyAlreadyExistsError<T> {
    fn fmt(&self, f: &mut std::fmt::Formatter<'_>) -> std::fmt::Result {
        writeln!(f, "Key `{:?}` already exists", self.key)
    }
}

#[derive(Clone, Debug)]
pub struct ParserError<'a> {
    pub kind: ParserErrorKind,
    pub input: TokenStream<'a>,
}

impl<'a> nom::error::ParseError<TokenStream<'a>> for ParserError<'a> {
    fn append(_: TokenStream, _: nom::error::ErrorKind, other: Self) -> Self {
        other
    }

    fn from_error_kind(input: TokenStream<'a>, kind: nom::error::ErrorKind) -> Self {
        Self {
            kind: ParserErrorKind::Nom(kind),
            input,
        }
    }
}

#[derive(Clone, Debug)]
pub enum ParserErrorKind {
    Token,
    Affected,
    Expect,
    IgnoreUntil,
    Nom(nom::error::ErrorKind),
}

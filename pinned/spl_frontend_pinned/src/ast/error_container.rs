use super::*;
use crate::ErrorContainer;
use crate::SplError;

impl ErrorContainer for AstInfo {
    fn errors(&self) -> Vec<SplError> {
        self.errors.clone()
    }
}

impl ErrorContainer for IntLiteral {
    fn errors(&self) -> Vec<SplError> {
        self.info.errors()
    }
}

impl ErrorContainer for Identifier {
    fn errors(&self) -> Vec<SplError> {
        self.info.errors()
    }
}

impl ErrorContainer for ArrayAccess {
    fn errors(&self) -> Vec<SplError> {
        let mut errors = self.info.errors();
        errors.extend(self.array.errors());
        if let Some(index) = &self.index {
            errors.extend(index.errors().shift(index.offset))
        }
        errors
    }
}

impl ErrorContainer for Variable {
    fn errors(&self) -> Vec<SplError> {
        match self {
            Self::ArrayAccess(a) => a.errors(),
            Self::NamedVariable(n) => n.errors(),
        }
    }
}

impl ErrorContainer for BinaryExpression {
    fn errors(&self) -> Vec<SplError> {
        let mut errors = self.info.errors();
        errors.extend(self.lhs.errors());
        errors.extend(self.rhs.errors());
        errors
    }
}

impl ErrorContainer for BracketedExpression {
    fn errors(&self) -> Vec<SplError> {
        let mut errors = self.info.errors();
        errors.extend(self.expr.errors());
        errors
    }
}

impl ErrorContainer for UnaryExpression {
    fn errors(&self) -> Vec<SplError> {
        let mut errors = self.info.errors();
        errors.extend(self.expr.errors());
        errors
    }
}

impl ErrorContainer for Expression {
    fn errors(&self) -> Vec<SplError> {
        match self {
            Self::Binary(b) => b.errors(),
            Self::Bracketed(b) => b.errors(),
            Self::Error(info) => info.errors(),
            Self::IntLiteral(i) => i.errors(),
            Self::Variable(v) => v.errors(),
            Self::Unary(u) => u.errors(),
        }
    }
}

impl ErrorContainer for TypeDeclaration {
    fn errors(&self) -> Vec<SplError> {
        let mut errors = self.info.errors();
        if let Some(name) = &self.name {
            errors.extend(name.errors());
        }
        if let Some(type_expr) = &self.type_expr {
            errors.extend(type_expr.errors().shift(type_expr.offset));
        }
        errors
    }
}

impl ErrorContainer for TypeExpression {
    fn errors(&self) -> Vec<SplError> {
        match self {
            Self::NamedType(n) => n.errors(),
            Self::ArrayType {
                base_type, info, ..
            } => {
                let mut errors = info.errors();
                if let Some(base_type) = base_type {
                    errors.extend(base_type.errors().shift(base_type.offset));
                }
                errors
            }
        }
    }
}

impl ErrorContainer for VariableDeclaration {
    fn errors(&self) -> Vec<SplError> {
        match self {
            Self::Error(info) => info.errors(),
            Self::Valid {
                name,
                type_expr,
                info,
                ..
            } => {
                let mut errors = info.errors();
                if let Some(name) = name {
                    errors.extend(name.errors());
                }
                if let Some(type_expr) = type_expr {
                    errors.extend(type_expr.errors().shift(type_expr.offset));
                }
                errors
            }
        }
    }
}

impl ErrorContainer for ParameterDeclaration {
    fn errors(&self) -> Vec<SplError> {
        match self {
            Self::Error(info) => info.errors(),
            Self::Valid {
                name,
                type_expr,
                info,
                ..
            } => {
                let mut errors = info.errors();
                if let Some(name) = name {
                    errors.extend(name.errors());
                }
                if let Some(type_expr) = type_expr {
                    errors.extend(type_expr.errors().shift(type_expr.offset));
                }
                errors
            }
        }
    }
}

impl ErrorContainer for CallStatement {
    fn errors(&self) -> Vec<SplError> {
        let mut errors = self.info.errors();
        errors.extend(self.name.errors());
        errors.extend(
            self.arguments
                .iter()
                .flat_map(|arg| arg.errors().shift(arg.offset)),
        );
        errors
    }
}

impl ErrorContainer for Assignment {
    fn errors(&self) -> Vec<SplError> {
        let mut errors = self.info.errors();
        errors.extend(self.variable.errors());
        if let Some(expr) = &self.expr {
            errors.extend(expr.errors().shift(expr.offset));
        }
        errors
    }
}

impl ErrorContainer for IfStatement {
    fn errors(&self) -> Vec<SplError> {
        let mut errors = self.info.errors();
        if let Some(expr) = &self.condition {
            errors.extend(expr.errors().shift(expr.offset));
        }
        if let Some(stmt) = &self.if_branch {
            errors.extend(stmt.errors().shift(stmt.offset));
        }
        if let Some(stmt) = &self.else_branch {
            errors.extend(stmt.errors().shift(stmt.offset));
        }
        errors
    }
}

impl ErrorContainer for WhileStatement {
    fn errors(&self) -> Vec<SplError> {
        let mut errors = self.info.errors();
        if let Some(expr) = &self.condition {
            errors.extend(expr.errors().shift(expr.offset));
        }
        if let Some(stmt) = &self.statement {
            errors.extend(stmt.errors().shift(stmt.offset));
        }
        errors
    }
}

impl ErrorContainer for BlockStatement {
    fn errors(&self) -> Vec<SplError> {
        let mut errors = self.info.errors();
        errors.extend(
            self.statements
                .iter()
                .flat_map(|stmt| stmt.errors().shift(stmt.offset)),
        );
        errors
    }
}

impl ErrorContainer for Statement {
    fn errors(&self) -> Vec<SplError> {
        match self {
            Self::Empty(info) => info.errors(),
            Self::Error(info) => info.errors(),
            Self::Assignment(a) => a.errors(),
            Self::Block(b) => b.errors(),
            Self::Call(c) => c.errors(),
            Self::If(i) => i.errors(),
            Self::While(w) => w.errors(),
        }
    }
}

impl ErrorContainer for ProcedureDeclaration {
    fn errors(&self) -> Vec<SplError> {
        let mut errors = self.info.errors();
        if let Some(name) = &self.name {
            errors.extend(name.errors());
        }
        errors.extend(
            self.parameters
                .iter()
                .flat_map(|stmt| stmt.errors().shift(stmt.offset)),
        );
        errors.extend(
            self.variable_declarations
                .iter()
                .flat_map(|stmt| stmt.errors().shift(stmt.offset)),
        );
        errors.extend(
            self.statements
                .iter()
                .flat_map(|stmt| stmt.errors().shift(stmt.offset)),
        );
        errors
    }
}

impl ErrorContainer for GlobalDeclaration {
    fn errors(&self) -> Vec<SplError> {
        match self {
            Self::Type(t) => t.errors(),
            Self::Procedure(p) => p.errors(),
            Self::Error(info) => info.errors(),
        }
    }
}

impl ErrorContainer for Program {
    fn errors(&self) -> Vec<SplError> {
        let mut errors = self.info.errors();
        errors.extend(
            self.global_declarations
                .iter()
                .flat_map(|gd| gd.errors().shift(gd.offset)),
        );
        errors
    }
}

use super::*;

impl AstInfoTraverser for Program {
    #[allow(dead_code)]
    fn traverse(&self, f: fn(&AstInfo)) {
        f(&self.info);
        self.global_declarations
            .iter()
            .for_each(|gd| gd.traverse(f));
    }

    fn traverse_mut(&mut self, f: fn(&mut AstInfo)) {
        f(&mut self.info);
        self.global_declarations
            .iter_mut()
            .for_each(|gd| gd.traverse_mut(f));
    }
}

impl AstInfoTraverser for GlobalDeclaration {
    fn traverse(&self, f: fn(&AstInfo)) {
        use GlobalDeclaration::*;
        match self {
            Procedure(pd) => pd.traverse(f),
            Type(td) => td.traverse(f),
            Error(err) => f(err),
        }
    }

    fn traverse_mut(&mut self, f: fn(&mut AstInfo)) {
        use GlobalDeclaration::*;
        match self {
            Procedure(pd) => pd.traverse_mut(f),
            Type(td) => td.traverse_mut(f),
            Error(err) => f(err),
        }
    }
}

impl AstInfoTraverser for TypeDeclaration {
    fn traverse(&self, f: fn(&AstInfo)) {
        f(&self.info);
        self.name.iter().for_each(|name| name.traverse(f));
        self.type_expr
            .iter()
            .for_each(|type_expr| type_expr.traverse(f));
    }

    fn traverse_mut(&mut self, f: fn(&mut AstInfo)) {
        f(&mut self.info);
        self.name.iter_mut().for_each(|name| name.traverse_mut(f));
        self.type_expr
            .iter_mut()
            .for_each(|type_expr| type_expr.traverse_mut(f));
    }
}

impl AstInfoTraverser for TypeExpression {
    fn traverse(&self, f: fn(&AstInfo)) {
        use TypeExpression::*;
        match self {
            NamedType(name) => name.traverse(f),
            ArrayType {
                size,
                base_type,
                info,
            } => {
                f(info);
                size.iter().for_each(|size| size.traverse(f));
                base_type.iter().for_each(|base_type| base_type.traverse(f));
            }
        }
    }

    fn traverse_mut(&mut self, f: fn(&mut AstInfo)) {
        use TypeExpression::*;
        match self {
            NamedType(name) => name.traverse_mut(f),
            ArrayType {
                size,
                base_type,
                info,
            } => {
                f(info);
                size.iter_mut().for_each(|size| size.traverse_mut(f));
                base_type
                    .iter_mut()
                    .for_each(|base_type| base_type.traverse_mut(f));
            }
        }
    }
}

impl AstInfoTraverser for ProcedureDeclaration {
    fn traverse(&self, f: fn(&AstInfo)) {
        f(&self.info);
        self.name.iter().for_each(|name| name.traverse(f));
        self.parameters.iter().for_each(|param| param.traverse(f));
        self.variable_declarations
            .iter()
            .for_each(|var| var.traverse(f));
        self.statements.iter().for_each(|stmt| stmt.traverse(f));
    }

    fn traverse_mut(&mut self, f: fn(&mut AstInfo)) {
        f(&mut self.info);
        self.name.iter_mut().for_each(|name| name.traverse_mut(f));
        self.parameters
            .iter_mut()
            .for_each(|param| param.traverse_mut(f));
        self.variable_declarations
            .iter_mut()
            .for_each(|var| var.traverse_mut(f));
        self.statements
            .iter_mut()
            .for_each(|stmt| stmt.traverse_mut(f));
    }
}

impl AstInfoTraverser for ParameterDeclaration {
    fn traverse(&self, f: fn(&AstInfo)) {
        use ParameterDeclaration::*;
        match self {
            Valid {
                name,
                type_expr,
                info,
                ..
            } => {
                f(info);
                name.iter().for_each(|name| name.traverse(f));
                type_expr.iter().for_each(|type_expr| type_expr.traverse(f));
            }
            Error(err) => f(err),
        }
    }

    fn traverse_mut(&mut self, f: fn(&mut AstInfo)) {
        use ParameterDeclaration::*;
        match self {
            Valid {
                name,
                type_expr,
                info,
                ..
            } => {
                f(info);
                name.iter_mut().for_each(|name| name.traverse_mut(f));
                type_expr
                    .iter_mut()
                    .for_each(|type_expr| type_expr.traverse_mut(f));
            }
            Error(err) => f(err),
        }
    }
}

impl AstInfoTraverser for VariableDeclaration {
    fn traverse(&self, f: fn(&AstInfo)) {
        use VariableDeclaration::*;
        match self {
            Valid {
                name,
                type_expr,
                info,
                ..
            } => {
                f(info);
                name.iter().for_each(|name| name.traverse(f));
                type_expr.iter().for_each(|type_expr| type_expr.traverse(f));
            }
            Error(err) => f(err),
        }
    }

    fn traverse_mut(&mut self, f: fn(&mut AstInfo)) {
        use VariableDeclaration::*;
        match self {
            Valid {
                name,
                type_expr,
                info,
                ..
            } => {
                f(info);
                name.iter_mut().for_each(|name| name.traverse_mut(f));
                type_expr
                    .iter_mut()
                    .for_each(|type_expr| type_expr.traverse_mut(f));
            }
            Error(err) => f(err),
        }
    }
}

impl AstInfoTraverser for Statement {
    fn traverse(&self, f: fn(&AstInfo)) {
        use Statement::*;
        match self {
            If(stmt) => stmt.traverse(f),
            While(stmt) => stmt.traverse(f),
            Call(stmt) => stmt.traverse(f),
            Assignment(stmt) => stmt.traverse(f),
            Block(stmt) => stmt.traverse(f),
            Empty(info) => f(info),
            Error(info) => f(info),
        }
    }

    fn traverse_mut(&mut self, f: fn(&mut AstInfo)) {
        use Statement::*;
        match self {
            If(stmt) => stmt.traverse_mut(f),
            While(stmt) => stmt.traverse_mut(f),
            Call(stmt) => stmt.traverse_mut(f),
            Assignment(stmt) => stmt.traverse_mut(f),
            Block(stmt) => stmt.traverse_mut(f),
            Empty(info) => f(info),
            Error(info) => f(info),
        }
    }
}

impl AstInfoTraverser for IfStatement {
    fn traverse(&self, f: fn(&AstInfo)) {
        f(&self.info);
        self.condition.iter().for_each(|expr| expr.traverse(f));
        self.if_branch.iter().for_each(|stmt| stmt.traverse(f));
        self.else_branch.iter().for_each(|stmt| stmt.traverse(f));
    }

    fn traverse_mut(&mut self, f: fn(&mut AstInfo)) {
        f(&mut self.info);
        self.condition
            .iter_mut()
            .for_each(|expr| expr.traverse_mut(f));
        self.if_branch
            .iter_mut()
            .for_each(|stmt| stmt.traverse_mut(f));
        self.else_branch
            .iter_mut()
            .for_each(|stmt| stmt.traverse_mut(f));
    }
}

impl AstInfoTraverser for WhileStatement {
    fn traverse(&self, f: fn(&AstInfo)) {
        f(&self.info);
        self.condition.iter().for_each(|expr| expr.traverse(f));
        self.statement.iter().for_each(|stmt| stmt.traverse(f));
    }

    fn traverse_mut(&mut self, f: fn(&mut AstInfo)) {
        f(&mut self.info);
        self.condition
            .iter_mut()
            .for_each(|expr| expr.traverse_mut(f));
        self.statement
            .iter_mut()
            .for_each(|stmt| stmt.traverse_mut(f));
    }
}

impl AstInfoTraverser for BlockStatement {
    fn traverse(&self, f: fn(&AstInfo)) {
        f(&self.info);
        self.statements.iter().for_each(|stmt| stmt.traverse(f));
    }

    fn traverse_mut(&mut self, f: fn(&mut AstInfo)) {
        f(&mut self.info);
        self.statements
            .iter_mut()
            .for_each(|stmt| stmt.traverse_mut(f));
    }
}

impl AstInfoTraverser for Assignment {
    fn traverse(&self, f: fn(&AstInfo)) {
        f(&self.info);
        self.variable.traverse(f);
        self.expr.iter().for_each(|expr| expr.traverse(f));
    }

    fn traverse_mut(&mut self, f: fn(&mut AstInfo)) {
        f(&mut self.info);
        self.variable.traverse_mut(f);
        self.expr.iter_mut().for_each(|expr| expr.traverse_mut(f));
    }
}

impl AstInfoTraverser for CallStatement {
    fn traverse(&self, f: fn(&AstInfo)) {
        f(&self.info);
        self.name.traverse(f);
        self.arguments.iter().for_each(|arg| arg.traverse(f));
    }

    fn traverse_mut(&mut self, f: fn(&mut AstInfo)) {
        f(&mut self.info);
        self.name.traverse_mut(f);
        self.arguments
            .iter_mut()
            .for_each(|arg| arg.traverse_mut(f));
    }
}

impl AstInfoTraverser for Expression {
    fn traverse(&self, f: fn(&AstInfo)) {
        use Expression::*;
        match self {
            Unary(expr) => expr.traverse(f),
            Binary(expr) => expr.traverse(f),
            Bracketed(expr) => expr.traverse(f),
            Variable(expr) => expr.traverse(f),
            IntLiteral(expr) => expr.traverse(f),
            Error(info) => f(info),
        }
    }

    fn traverse_mut(&mut self, f: fn(&mut AstInfo)) {
        use Expression::*;
        match self {
            Unary(expr) => expr.traverse_mut(f),
            Binary(expr) => expr.traverse_mut(f),
            Bracketed(expr) => expr.traverse_mut(f),
            Variable(expr) => expr.traverse_mut(f),
            IntLiteral(expr) => expr.traverse_mut(f),
            Error(info) => f(info),
        }
    }
}

impl AstInfoTraverser for BinaryExpression {
    fn traverse(&self, f: fn(&AstInfo)) {
        f(&self.info);
        self.lhs.traverse(f);
        self.rhs.traverse(f);
    }

    fn traverse_mut(&mut self, f: fn(&mut AstInfo)) {
        f(&mut self.info);
        self.lhs.traverse_mut(f);
        self.rhs.traverse_mut(f);
    }
}

impl AstInfoTraverser for UnaryExpression {
    fn traverse(&self, f: fn(&AstInfo)) {
        f(&self.info);
        self.expr.traverse(f);
    }

    fn traverse_mut(&mut self, f: fn(&mut AstInfo)) {
        f(&mut self.info);
        self.expr.traverse_mut(f);
    }
}

impl AstInfoTraverser for BracketedExpression {
    fn traverse(&self, f: fn(&AstInfo)) {
        f(&self.info);
        self.expr.traverse(f);
    }

    fn traverse_mut(&mut self, f: fn(&mut AstInfo)) {
        f(&mut self.info);
        self.expr.traverse_mut(f);
    }
}

impl AstInfoTraverser for Variable {
    fn traverse(&self, f: fn(&AstInfo)) {
        use Variable::*;
        match self {
            NamedVariable(name) => name.traverse(f),
            ArrayAccess(a) => a.traverse(f),
        }
    }

    fn traverse_mut(&mut self, f: fn(&mut AstInfo)) {
        use Variable::*;
        match self {
            NamedVariable(name) => name.traverse_mut(f),
            ArrayAccess(a) => a.traverse_mut(f),
        }
    }
}

impl AstInfoTraverser for ArrayAccess {
    fn traverse(&self, f: fn(&AstInfo)) {
        f(&self.info);
        self.array.traverse(f);
        self.index.iter().for_each(|index| index.traverse(f));
    }

    fn traverse_mut(&mut self, f: fn(&mut AstInfo)) {
        f(&mut self.info);
        self.array.traverse_mut(f);
        self.index
            .iter_mut()
            .for_each(|index| index.traverse_mut(f));
    }
}

impl AstInfoTraverser for IntLiteral {
    fn traverse(&self, f: fn(&AstInfo)) {
        f(&self.info);
    }

    fn traverse_mut(&mut self, f: fn(&mut AstInfo)) {
        f(&mut self.info);
    }
}

impl AstInfoTraverser for Identifier {
    fn traverse(&self, f: fn(&AstInfo)) {
        f(&self.info);
    }

    fn traverse_mut(&mut self, f: fn(&mut AstInfo)) {
        f(&mut self.info);
    }
}

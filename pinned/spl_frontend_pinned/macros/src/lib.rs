use proc_macro2::TokenStream;
use quote::quote;
use syn::DataEnum;

#[proc_macro_derive(ToRange)]
pub fn to_range_derive(input: proc_macro::TokenStream) -> proc_macro::TokenStream {
    let ast = syn::parse(input).expect("Cannot parse struct");
    let output = impl_to_range_derive(&ast);
    proc_macro::TokenStream::from(output)
}

fn impl_to_range_derive(ast: &syn::DeriveInput) -> TokenStream {
    let name = &ast.ident;
    let implementation = match &ast.data {
        syn::Data::Struct(_) => {
            quote! {
                self.info.to_range()
            }
        }
        syn::Data::Enum(e) => {
            let variants: Vec<_> = access_info_in_enum_variants(e, "ToRange");
            quote! {
                match self {
                    #(#variants info.to_range()),*
                }
            }
        }
        _ => panic!("#[derive(ToRange) is not defined]"),
    };
    let gen = quote! {
        impl ToRange for #name {
            fn to_range(&self) -> std::ops::Range<usize> {
                #implementation
            }
        }
    };
    gen
}

#[proc_macro_derive(ToTextRange)]
pub fn to_text_range_derive(input: proc_macro::TokenStream) -> proc_macro::TokenStream {
    let ast = syn::parse(input).expect("Cannot parse struct");
    let output = impl_to_text_range_derive(&ast);
    proc_macro::TokenStream::from(output)
}

fn impl_to_text_range_derive(ast: &syn::DeriveInput) -> TokenStream {
    let name = &ast.ident;
    let implementation = match &ast.data {
        syn::Data::Struct(_) => {
            quote! {
                self.info.to_text_range(tokens)
            }
        }
        syn::Data::Enum(e) => {
            let variants: Vec<_> = access_info_in_enum_variants(e, "ToTextRange");
            quote! {
                match self {
                    #(#variants info.to_text_range(tokens)),*
                }
            }
        }
        _ => panic!("#[derive(ToTextRange) is not defined]"),
    };
    let gen = quote! {
        impl ToTextRange for #name {
            fn to_text_range(&self, tokens: &[Token]) -> std::ops::Range<usize> {
                #implementation
            }
        }
    };
    gen
}

fn access_info_in_enum_variants(data_enum: &DataEnum, derivation: &str) -> Vec<TokenStream> {
    data_enum
        .variants
        .iter()
        .map(|variant| {
            let var_name = &variant.ident;
            use syn::Fields::*;
            let field = match &variant.fields {
                Unnamed(fields) => {
                    if fields.unnamed.len() > 1 {
                        panic!(
                            "#[derive({})] is not defined for tuple enums with more than one field",
                            derivation
                        )
                    }
                    quote! {
                        (info)
                    }
                }
                Named(_) => {
                    quote! {
                        {
                            info,
                            ..
                        }
                    }
                }
                _ => panic!(
                    "#[derive({}) is not defined for this enum type]",
                    derivation
                ),
            };
            quote! {
                Self::#var_name #field =>
            }
        })
        .collect()
}

#!/bin/bash
# Sensitivity self-test: apply each mutant / seeded change to /repo's working tree, run the quick
# check of the targeted property, expect exit 1 with a VIOLATION line, restore the tree.
#   ./selftest.sh                 all of mutants/*.patch and seeded/*/patch.diff
#   ./selftest.sh <patch> <ID>    one patch against one property
# A patch file name starts with anything and contains the property id (Cnn) it targets.
cd "$(dirname "$0")"
ROOT=$(pwd)
run_one() {
    local patch; patch="$(realpath "$1")"; local id="$2"
    if ! git -C /repo diff --quiet; then echo "refusing: /repo has uncommitted changes"; exit 2; fi
    if ! git -C /repo apply --check "$patch" 2>/dev/null; then echo "SKIP  $id $(basename "$patch") (does not apply)"; return; fi
    git -C /repo apply "$patch"
    local out rc
    # the evidence file must keep describing the unchanged tree
    cp "$ROOT/evidence/$id.json" "$ROOT/evidence/.$id.json.saved" 2>/dev/null
    out=$(VERIF_SEED=${VERIF_SEED:-1} timeout 1800 ./check.sh "$id" quick 2>&1); rc=$?
    git -C /repo checkout -- . ; git -C /repo clean -fdq -- lsp4spl spl_frontend 2>/dev/null
    [ -f "$ROOT/evidence/.$id.json.saved" ] && mv "$ROOT/evidence/.$id.json.saved" "$ROOT/evidence/$id.json"
    if [ $rc -eq 1 ] && echo "$out" | grep -q "^VIOLATION property=$id"; then
        echo "CAUGHT $id $patch :: $(echo "$out" | grep -m1 'failure:' | cut -c1-160)"
    else
        echo "MISSED $id $patch (exit $rc) :: $(echo "$out" | tail -2 | tr '\n' ' ' | cut -c1-200)"
    fi
    rm -f "$ROOT"/replays/*.json
}
if [ $# -ge 2 ]; then run_one "$1" "$2"; exit 0; fi
for p in mutants/*.patch; do
    id=$(basename "$p" | grep -oE 'C[0-9]{2}' | head -1)
    run_one "$p" "$id"
done
for d in seeded/*/; do
    [ -f "$d/patch.diff" ] || continue
    id=$(python3 -c "import json;print(json.load(open('$d/meta.json'))['property'])" 2>/dev/null)
    run_one "$d/patch.diff" "$id"
done
# leave the tree as it was: rebuild so that later runs start from the unchanged sources
./check.sh --setup >/dev/null 2>&1

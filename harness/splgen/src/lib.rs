//! Generators, reference models and oracles that do not depend on the repository under test.
pub mod faults;
pub mod layout;
pub mod lsp;
pub mod mutate;
pub mod prog;
pub mod reflex;
pub mod render;
pub mod src;
pub mod text;

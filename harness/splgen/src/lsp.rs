//! R2: LSP client text model. Positions are (line, UTF-16 column). Line ends are `\n`, `\r\n` and
//! `\r`. A column past the end of a line means the end of that line (before its terminator); a
//! line past the end of the text means the end of the text. Written from the LSP 3.17
//! specification, independent of the server's implementation.

use std::ops::Range;

#[derive(Clone, Copy, Debug, PartialEq, Eq, PartialOrd, Ord, Hash)]
pub struct Pos {
    pub line: u32,
    pub character: u32,
}

#[derive(Clone, Debug, PartialEq, Eq)]
pub struct Change {
    /// None = full replacement
    pub range: Option<(Pos, Pos)>,
    pub text: String,
}

/// Byte offsets of line starts and of line ends (before the terminator).
pub fn lines(text: &str) -> Vec<Range<usize>> {
    let b = text.as_bytes();
    let mut out = Vec::new();
    let mut start = 0;
    let mut i = 0;
    while i < b.len() {
        match b[i] {
            b'\n' => {
                out.push(start..i);
                i += 1;
                start = i;
            }
            b'\r' => {
                out.push(start..i);
                i += 1;
                if i < b.len() && b[i] == b'\n' {
                    i += 1;
                }
                start = i;
            }
            _ => i += 1,
        }
    }
    out.push(start..b.len());
    out
}

/// Position -> byte offset under the LSP rules (clamping).
pub fn offset_of(text: &str, pos: Pos) -> usize {
    let ls = lines(text);
    let l = pos.line as usize;
    if l >= ls.len() {
        return text.len();
    }
    let r = ls[l].clone();
    let mut col = 0u32;
    for (i, c) in text[r.clone()].char_indices() {
        if col >= pos.character {
            return r.start + i;
        }
        col += c.len_utf16() as u32;
    }
    r.end
}

/// Byte offset (on a character boundary) -> position.
pub fn pos_of(text: &str, offset: usize) -> Pos {
    let ls = lines(text);
    let mut li = 0;
    for (k, r) in ls.iter().enumerate() {
        if r.start <= offset {
            li = k;
        } else {
            break;
        }
    }
    let r = ls[li].clone();
    let end = offset.min(r.end);
    let col: usize = text[r.start..end].chars().map(|c| c.len_utf16()).sum();
    Pos { line: li as u32, character: col as u32 }
}

/// True if `offset` is a position LSP can express unambiguously: on a char boundary and not
/// between `\r` and `\n`.
pub fn expressible(text: &str, offset: usize) -> bool {
    if !text.is_char_boundary(offset) {
        return false;
    }
    let b = text.as_bytes();
    !(offset > 0 && offset < b.len() && b[offset - 1] == b'\r' && b[offset] == b'\n')
}

pub fn apply(text: &mut String, change: &Change) {
    match &change.range {
        None => *text = change.text.clone(),
        Some((s, e)) => {
            let a = offset_of(text, *s);
            let b = offset_of(text, *e);
            let (a, b) = if a <= b { (a, b) } else { (a, a) };
            text.replace_range(a..b, &change.text);
        }
    }
}

pub fn line_count(text: &str) -> usize {
    lines(text).len()
}

/// Position one past the last character (end of document).
pub fn end_pos(text: &str) -> Pos {
    pos_of(text, text.len())
}

#[cfg(test)]
mod tests {
    use super::*;
    #[test]
    fn positions() {
        let t = "a😀b\r\nc\rd\n";
        assert_eq!(lines(t), vec![0..6, 8..9, 10..11, 12..12]);
        assert_eq!(pos_of(t, 5), Pos { line: 0, character: 3 });
        assert_eq!(offset_of(t, Pos { line: 0, character: 3 }), 5);
        assert_eq!(offset_of(t, Pos { line: 0, character: 99 }), 6);
        assert_eq!(offset_of(t, Pos { line: 2, character: 0 }), 10);
        assert_eq!(offset_of(t, Pos { line: 9, character: 0 }), t.len());
        assert_eq!(pos_of(t, t.len()), Pos { line: 3, character: 0 });
        for o in 0..=t.len() {
            if expressible(t, o) {
                assert_eq!(offset_of(t, pos_of(t, o)), o);
            }
        }
    }
}

//! G4 (model level): validity-preserving edits. A program model is mutated (statement inserted /
//! deleted / replaced, literal changed, declaration or local added, declaration removed) or only
//! its layout is (whitespace, comment lines); the edit delivered to the server is the minimal
//! text difference between the two renderings, so every step goes from a syntactically valid
//! text to a syntactically valid text.

use crate::layout::{comment_text, Gap, Layout};
use crate::prog::*;
use crate::render::Tok;
use crate::src::Src;
use crate::text::Edit;

fn count_lists(stmts: &[Stmt]) -> usize {
    1 + stmts.iter().map(count_in_stmt).sum::<usize>()
}

fn count_in_stmt(s: &Stmt) -> usize {
    match s {
        Stmt::Block(ss) => count_lists(ss),
        Stmt::If(_, t, e) => count_in_stmt(t) + e.as_ref().map_or(0, |e| count_in_stmt(e)),
        Stmt::While(_, b) => count_in_stmt(b),
        _ => 0,
    }
}

fn with_list<R>(stmts: &mut Vec<Stmt>, target: &mut usize, f: &mut dyn FnMut(&mut Vec<Stmt>) -> R) -> Option<R> {
    if *target == 0 {
        return Some(f(stmts));
    }
    *target -= 1;
    for s in stmts.iter_mut() {
        if let Some(r) = with_list_in(s, target, f) {
            return Some(r);
        }
    }
    None
}

fn with_list_in<R>(s: &mut Stmt, target: &mut usize, f: &mut dyn FnMut(&mut Vec<Stmt>) -> R) -> Option<R> {
    match s {
        Stmt::Block(ss) => with_list(ss, target, f),
        Stmt::If(_, t, e) => {
            if let Some(r) = with_list_in(t, target, f) {
                return Some(r);
            }
            match e {
                Some(e) => with_list_in(e, target, f),
                None => None,
            }
        }
        Stmt::While(_, b) => with_list_in(b, target, f),
        _ => None,
    }
}

fn lits_in_expr<'a>(e: &'a mut Expr, out: &mut Vec<&'a mut Lit>) {
    match e {
        Expr::Lit(l) => out.push(l),
        Expr::Var(v) => lits_in_var(v, out),
        Expr::Neg(e) | Expr::Paren(e) => lits_in_expr(e, out),
        Expr::Bin(_, l, r) => {
            lits_in_expr(l, out);
            lits_in_expr(r, out);
        }
    }
}

fn lits_in_var<'a>(v: &'a mut Var, out: &mut Vec<&'a mut Lit>) {
    if let Var::Index(a, i) = v {
        lits_in_var(a, out);
        lits_in_expr(i, out);
    }
}

fn lits_in_stmt<'a>(s: &'a mut Stmt, out: &mut Vec<&'a mut Lit>) {
    match s {
        Stmt::Empty => {}
        Stmt::Assign(v, e) => {
            lits_in_var(v, out);
            lits_in_expr(e, out);
        }
        Stmt::Call(_, _, args) => args.iter_mut().for_each(|a| lits_in_expr(a, out)),
        Stmt::If(c, t, e) => {
            lits_in_expr(c, out);
            lits_in_stmt(t, out);
            if let Some(e) = e {
                lits_in_stmt(e, out);
            }
        }
        Stmt::While(c, b) => {
            lits_in_expr(c, out);
            lits_in_stmt(b, out);
        }
        Stmt::Block(ss) => ss.iter_mut().for_each(|s| lits_in_stmt(s, out)),
    }
}

pub const MUTATIONS: [&str; 9] = [
    "insert-statement",
    "delete-statement",
    "replace-statement",
    "change-literal",
    "add-local",
    "insert-declaration",
    "delete-declaration",
    "wrap-in-block",
    "append-else",
];

/// One validity-preserving model mutation. Returns the class actually applied.
pub fn mutate(s: &mut Src, prog: &mut Prog, cfg: &GenCfg) -> &'static str {
    let visible: Vec<usize> = prog.order.iter().filter_map(|d| if let Decl::Proc(j) = d { Some(*j) } else { None }).collect();
    let kind = s.below(MUTATIONS.len());
    let p = visible[s.below(visible.len())];
    match MUTATIONS[kind] {
        "insert-statement" => {
            let st = gen_stmt(s, prog, p, cfg);
            let n = count_lists(&prog.procs[p].body);
            let mut target = s.below(n);
            let sel = s.byte() as usize;
            let mut st = Some(st);
            with_list(&mut prog.procs[p].body, &mut target, &mut |l| {
                let pos = (sel * (l.len() + 1)) >> 8;
                l.insert(pos, st.take().unwrap());
            });
            "insert-statement"
        }
        "delete-statement" | "replace-statement" | "wrap-in-block" | "append-else" => {
            let new = gen_stmt(s, prog, p, cfg);
            let n = count_lists(&prog.procs[p].body);
            let mut target = s.below(n);
            let sel = s.byte() as usize;
            let which = MUTATIONS[kind];
            let mut new = Some(new);
            let done = with_list(&mut prog.procs[p].body, &mut target, &mut |l| {
                if l.is_empty() {
                    return false;
                }
                let pos = (sel * l.len()) >> 8;
                match which {
                    "delete-statement" => {
                        l.remove(pos);
                    }
                    "replace-statement" => l[pos] = new.take().unwrap(),
                    "wrap-in-block" => {
                        let old = std::mem::replace(&mut l[pos], Stmt::Empty);
                        l[pos] = Stmt::Block(vec![old]);
                    }
                    _ => {
                        if let Stmt::If(_, t, e @ None) = &mut l[pos] {
                            // keep the derivation unambiguous: an open `if` in the branch needs a block
                            let t_old = std::mem::replace(&mut **t, Stmt::Empty);
                            **t = Stmt::Block(vec![t_old]);
                            *e = Some(Box::new(new.take().unwrap()));
                        } else {
                            return false;
                        }
                    }
                }
                true
            });
            if done == Some(true) {
                which
            } else {
                "no-change"
            }
        }
        "change-literal" => {
            let mut lits = Vec::new();
            for st in prog.procs[p].body.iter_mut() {
                lits_in_stmt(st, &mut lits);
            }
            if lits.is_empty() {
                return "no-change";
            }
            let k = s.below(lits.len());
            let v = s.below(1000) as u32;
            *lits[k] = match s.below(3) {
                0 => Lit::Dec(v, v.to_string()),
                1 => Lit::Hex(v, format!("0x{:X}", v)),
                _ => Lit::Char(*s.pick(&['a', 'b', 'z', ' ', '\n'])),
            };
            "change-literal"
        }
        "add-local" => {
            let proc = &mut prog.procs[p];
            let mut i = 0;
            let name = loop {
                let n = format!("nl{}", i);
                if !proc.params.iter().chain(proc.locals.iter()).any(|v| v.name == n) {
                    break n;
                }
                i += 1;
            };
            proc.locals.push(VarDecl { name, is_ref: false, expr: TExpr::Named("int".into()), ty: Ty::Int });
            "add-local"
        }
        "insert-declaration" => {
            let d = gen_decl(s, prog, cfg);
            let at = s.below(prog.order.len() + 1);
            prog.order.insert(at, d);
            "insert-declaration"
        }
        _ => {
            // remove a declaration from the program text (main stays)
            let cands: Vec<usize> = (0..prog.order.len()).filter(|i| prog.decl_name(prog.order[*i]) != "main").collect();
            if cands.is_empty() {
                return "no-change";
            }
            let i = cands[s.below(cands.len())];
            prog.order.remove(i);
            "delete-declaration"
        }
    }
}

/// Carry a layout over to a new token list: gaps of the common token prefix and suffix are kept,
/// tokens in between get fresh whitespace.
pub fn carry_layout(old_toks: &[Tok], old: &Layout, new_toks: &[Tok], s: &mut Src) -> Layout {
    let n0 = old_toks.len();
    let n1 = new_toks.len();
    let mut pre = 0;
    while pre < n0 && pre < n1 && old_toks[pre].text == new_toks[pre].text {
        pre += 1;
    }
    let mut suf = 0;
    while suf < n0 - pre && suf < n1 - pre && old_toks[n0 - 1 - suf].text == new_toks[n1 - 1 - suf].text {
        suf += 1;
    }
    let mut gaps = Vec::with_capacity(n1 + 1);
    for i in 0..=n1 {
        if i <= pre && i < n0 + 1 && i <= n0 - suf {
            gaps.push(old.gaps[i].clone());
        } else if i >= n1 - suf {
            // gap before new token i corresponds to the gap before old token i + (n0 - n1)
            gaps.push(old.gaps[i + n0 - n1].clone());
        } else {
            let pre_ws = *s.pick(&[" ", " ", "\n", "\n  ", "\t", "  "]);
            gaps.push(Gap { pre: pre_ws.to_string(), comments: vec![] });
        }
    }
    Layout { gaps, open_last_comment: old.open_last_comment, trailing: old.trailing.clone() }
}

/// A layout-only edit: change the whitespace of one gap, add or remove a comment line.
pub fn layout_edit(s: &mut Src, l: &mut Layout, counter: &mut usize) -> &'static str {
    let n = l.gaps.len();
    let g = s.below(n);
    match s.below(5) {
        0 | 1 => {
            l.gaps[g].pre = s.pick(&[" ", "\n", "  ", "\t", "\n\n", "\r\n", " \n "]).to_string();
            "whitespace"
        }
        2 | 3 => {
            *counter += 1000;
            let c = comment_text(s, counter);
            let at = s.below(l.gaps[g].comments.len() + 1);
            l.gaps[g].comments.insert(at, (c, s.pick(&["", "  ", "\n"]).to_string()));
            "insert-comment"
        }
        _ => {
            let with: Vec<usize> = (0..n).filter(|i| !l.gaps[*i].comments.is_empty()).collect();
            if with.is_empty() {
                l.gaps[g].pre.push(' ');
                return "whitespace";
            }
            let g = with[s.below(with.len())];
            let k = s.below(l.gaps[g].comments.len());
            l.gaps[g].comments.remove(k);
            "delete-comment"
        }
    }
}

/// Minimal single replacement turning `old` into `new` (on character boundaries).
pub fn diff(old: &str, new: &str) -> Option<Edit> {
    if old == new {
        return None;
    }
    let ob = old.as_bytes();
    let nb = new.as_bytes();
    let mut p = 0;
    while p < ob.len() && p < nb.len() && ob[p] == nb[p] {
        p += 1;
    }
    while !old.is_char_boundary(p) || !new.is_char_boundary(p) {
        p -= 1;
    }
    let mut q = 0;
    while q < ob.len() - p && q < nb.len() - p && ob[ob.len() - 1 - q] == nb[nb.len() - 1 - q] {
        q += 1;
    }
    while !old.is_char_boundary(ob.len() - q) || !new.is_char_boundary(nb.len() - q) {
        q -= 1;
    }
    Some(Edit { range: p..ob.len() - q, text: new[p..nb.len() - q].to_string() })
}

//! G2: single-fault injectors. Each takes a well-typed program, adds valid helper declarations
//! (so that operands of every needed type exist) and then exactly one construct that violates
//! exactly one SPL rule. The injectors know which node of the rendered tree is the culprit.

use crate::prog::*;
use crate::src::Src;

pub const KINDS: [&str; 27] = [
    "UndefinedType",
    "NotAType",
    "RedeclarationAsType",
    "MustBeAReferenceParameter",
    "RedeclarationAsProcedure",
    "RedeclarationAsParameter",
    "RedeclarationAsVariable",
    "MainIsMissing",
    "MainIsNotAProcedure",
    "MainMustNotHaveParameters",
    "AssignmentHasDifferentTypes",
    "AssignmentRequiresIntegers",
    "IfConditionMustBeBoolean",
    "WhileConditionMustBeBoolean",
    "UndefinedProcedure",
    "CallOfNoneProcedure",
    "ArgumentsTypeMismatch",
    "ArgumentMustBeAVariable",
    "TooFewArguments",
    "TooManyArguments",
    "OperatorDifferentTypes",
    "ComparisonNonInteger",
    "ArithmeticOperatorNonInteger",
    "UndefinedVariable",
    "NotAVariable",
    "IndexingNonArray",
    "IndexingWithNonInteger",
];

#[derive(Clone, Debug)]
pub enum Locator {
    /// the diagnostic must lie on one of these nodes (paths of child indices from the Program node)
    AnyOf(Vec<Vec<usize>>),
    /// no construct to point at (a missing `main`): any position inside the document
    Nowhere,
}

#[derive(Clone, Debug)]
pub struct Fault {
    pub kind: &'static str,
    pub message: String,
    /// program with helpers, without the fault: must be free of diagnostics
    pub base: Prog,
    pub prog: Prog,
    pub locator: Locator,
    /// the culprit is an identifier: the diagnostic covers exactly that token
    pub exact_token: bool,
}

struct Helpers {
    prog: Prog,
    /// index of the target procedure in `procs`
    p: usize,
    /// position of the target procedure in `order`
    decl: usize,
    ht: String,
    hi: String,
    ha: String,
    hb: String,
    ht1: String,
    ht2: String,
    /// local of the nested array type `HM = array [2] of array [2] of int` (its rows are of another
    /// type that stems from the same declaration)
    hm: String,
    /// helper procedure with one reference parameter of type HM
    hq: (usize, String),
}

fn all_names(prog: &Prog) -> Vec<String> {
    let mut v: Vec<String> = prog.types.iter().map(|t| t.name.clone()).collect();
    for p in &prog.procs {
        v.push(p.name.clone());
        v.extend(p.params.iter().chain(p.locals.iter()).map(|d| d.name.clone()));
    }
    v.extend(BUILTINS.iter().map(|(n, _)| n.to_string()));
    v.extend(KEYWORDS.iter().map(|k| k.to_string()));
    v.push("int".into());
    v.push("main".into());
    v
}

fn fresh(taken: &mut Vec<String>, stem: &str) -> String {
    let mut i = 0;
    loop {
        let n = format!("{}{}", stem, i);
        if !taken.contains(&n) {
            taken.push(n.clone());
            return n;
        }
        i += 1;
    }
}

fn int_lit(v: u32) -> Expr {
    Expr::Lit(Lit::Dec(v, v.to_string()))
}

fn with_helpers(s: &mut Src, base: &Prog, need_non_main: bool) -> Option<Helpers> {
    let mut prog = base.clone();
    let mut taken = all_names(&prog);
    let ht = fresh(&mut taken, "HT");
    let ty = Ty::Arr { size: 2, base: Box::new(Ty::Int), creator: ht.clone() };
    prog.types.push(TypeDecl { name: ht.clone(), expr: TExpr::Array(Lit::Dec(2, "2".into()), Box::new(TExpr::Named("int".into()))), ty: ty.clone() });
    let ht_index = prog.types.len() - 1;
    let hmt = fresh(&mut taken, "HM");
    let row = Ty::Arr { size: 2, base: Box::new(Ty::Int), creator: hmt.clone() };
    let mty = Ty::Arr { size: 2, base: Box::new(row), creator: hmt.clone() };
    let arr_int = || TExpr::Array(Lit::Dec(2, "2".into()), Box::new(TExpr::Named("int".into())));
    prog.types.push(TypeDecl { name: hmt.clone(), expr: TExpr::Array(Lit::Dec(2, "2".into()), Box::new(arr_int())), ty: mty.clone() });
    prog.order.insert(0, Decl::Type(prog.types.len() - 1));
    // HT stays the first declaration (injectors insert behind position 0)
    prog.order.insert(0, Decl::Type(ht_index));
    let cands: Vec<usize> = (0..prog.procs.len()).filter(|j| !need_non_main || prog.procs[*j].name != "main").collect();
    if cands.is_empty() {
        return None;
    }
    let p = cands[s.below(cands.len())];
    let pname = prog.procs[p].name.clone();
    let hi = fresh(&mut taken, "hi");
    let ha = fresh(&mut taken, "ha");
    let hb = fresh(&mut taken, "hb");
    let ht1 = fresh(&mut taken, "hx");
    let ht2 = fresh(&mut taken, "hy");
    let anon = |n: &str| Ty::Arr { size: 2, base: Box::new(Ty::Int), creator: anon_creator(&pname, n) };
    let arr = || TExpr::Array(Lit::Dec(2, "2".into()), Box::new(TExpr::Named("int".into())));
    let locals = &mut prog.procs[p].locals;
    locals.push(VarDecl { name: hi.clone(), is_ref: false, expr: TExpr::Named("int".into()), ty: Ty::Int });
    locals.push(VarDecl { name: ha.clone(), is_ref: false, expr: arr(), ty: anon(&ha) });
    locals.push(VarDecl { name: hb.clone(), is_ref: false, expr: arr(), ty: anon(&hb) });
    locals.push(VarDecl { name: ht1.clone(), is_ref: false, expr: TExpr::Named(ht.clone()), ty: ty.clone() });
    locals.push(VarDecl { name: ht2.clone(), is_ref: false, expr: TExpr::Named(ht.clone()), ty });
    let hm = fresh(&mut taken, "hm");
    locals.push(VarDecl { name: hm.clone(), is_ref: false, expr: TExpr::Named(hmt.clone()), ty: mty.clone() });
    let hqn = fresh(&mut taken, "hq");
    let qn = fresh(&mut taken, "hqm");
    prog.procs.push(Proc { name: hqn.clone(), params: vec![VarDecl { name: qn, is_ref: true, expr: TExpr::Named(hmt.clone()), ty: mty }], locals: vec![], body: vec![] });
    let hq = (prog.procs.len() - 1, hqn);
    prog.order.push(Decl::Proc(hq.0));
    let decl = prog.order.iter().position(|d| *d == Decl::Proc(p)).unwrap();
    Some(Helpers { prog, p, decl, ht, hi, ha, hb, ht1, ht2, hm, hq })
}

/// A declared procedure with at least `min` parameters whose reference parameters can all be
/// served from the helper variables (int or the helper array type), that is not hidden by a local
/// of the target procedure. Returns (index, valid argument list).
fn callable_user_proc(s: &mut Src, h: &Helpers, min: usize) -> Option<(usize, Vec<Expr>)> {
    let target = &h.prog.procs[h.p];
    let hidden = |n: &str| target.params.iter().chain(target.locals.iter()).any(|v| v.name == n);
    let ht_ty = Ty::Arr { size: 2, base: Box::new(Ty::Int), creator: h.ht.clone() };
    let mut cands = Vec::new();
    for (j, p) in h.prog.procs.iter().enumerate() {
        if p.name == "main" || p.params.len() < min || hidden(&p.name) {
            continue;
        }
        if !h.prog.order.contains(&Decl::Proc(j)) {
            continue;
        }
        let mut args = Vec::new();
        let mut ok = true;
        for prm in &p.params {
            if prm.ty.is_int() {
                args.push(if prm.is_ref { Expr::Var(local_var(h, &h.hi)) } else { int_lit(5) });
            } else if prm.ty == ht_ty {
                args.push(Expr::Var(local_var(h, &h.ht1)));
            } else {
                ok = false;
                break;
            }
        }
        if ok {
            cands.push((j, args));
        }
    }
    if cands.is_empty() {
        None
    } else {
        let k = s.below(cands.len());
        Some(cands.swap_remove(k))
    }
}

fn local_var(h: &Helpers, name: &str) -> Var {
    let k = h.prog.procs[h.p].locals.iter().position(|l| l.name == name).unwrap();
    Var::Name(name.to_string(), Bind::Local(h.p, k))
}

/// number of statement lists (procedure body + blocks) reachable in `stmts`
fn count_lists(stmts: &[Stmt]) -> usize {
    1 + stmts.iter().map(count_in_stmt).sum::<usize>()
}

fn count_in_stmt(s: &Stmt) -> usize {
    match s {
        Stmt::Block(ss) => count_lists(ss),
        Stmt::If(_, t, e) => count_in_stmt(t) + e.as_ref().map_or(0, |e| count_in_stmt(e)),
        Stmt::While(_, b) => count_in_stmt(b),
        _ => 0,
    }
}

/// insert `new` into the `target`-th statement list; returns the tree path (relative to the
/// node owning the outermost list, whose statements start at child index `child_base`)
fn insert_into(stmts: &mut Vec<Stmt>, child_base: usize, target: &mut usize, pos_sel: usize, new: &mut Option<Stmt>) -> Option<Vec<usize>> {
    if *target == 0 {
        let pos = (pos_sel * (stmts.len() + 1)) >> 8;
        stmts.insert(pos, new.take().unwrap());
        return Some(vec![child_base + pos]);
    }
    *target -= 1;
    for (i, s) in stmts.iter_mut().enumerate() {
        if let Some(mut p) = insert_in_stmt(s, target, pos_sel, new) {
            let mut path = vec![child_base + i];
            path.append(&mut p);
            return Some(path);
        }
    }
    None
}

fn insert_in_stmt(s: &mut Stmt, target: &mut usize, pos_sel: usize, new: &mut Option<Stmt>) -> Option<Vec<usize>> {
    match s {
        Stmt::Block(ss) => insert_into(ss, 0, target, pos_sel, new),
        Stmt::If(_, t, e) => {
            if let Some(mut p) = insert_in_stmt(t, target, pos_sel, new) {
                let mut path = vec![1];
                path.append(&mut p);
                return Some(path);
            }
            if let Some(e) = e {
                if let Some(mut p) = insert_in_stmt(e, target, pos_sel, new) {
                    let mut path = vec![2];
                    path.append(&mut p);
                    return Some(path);
                }
            }
            None
        }
        Stmt::While(_, b) => insert_in_stmt(b, target, pos_sel, new).map(|mut p| {
            let mut path = vec![1];
            path.append(&mut p);
            path
        }),
        _ => None,
    }
}

/// Put `stmt` somewhere into the target procedure; returns the path of the statement node.
fn place_stmt(s: &mut Src, h: &mut Helpers, stmt: Stmt) -> Vec<usize> {
    let proc = &mut h.prog.procs[h.p];
    let n = count_lists(&proc.body);
    let mut target = s.below(n);
    let pos_sel = s.byte() as usize;
    let child_base = 1 + proc.params.len() + proc.locals.len();
    let mut new = Some(stmt);
    let mut path = vec![h.decl];
    let mut p = insert_into(&mut proc.body, child_base, &mut target, pos_sel, &mut new).expect("list exists");
    path.append(&mut p);
    path
}

/// Optionally bury an int-typed expression inside a larger valid int expression.
fn wrap(s: &mut Src, e: Expr, path: &mut Vec<usize>) -> Expr {
    if s.chance(1, 12) {
        // the leftmost operand of a long operator chain: (e) + 1 + 1 + ... (33-52 operators)
        let k = 33 + s.below(20);
        path.insert(0, 0);
        let mut out = Expr::Paren(Box::new(e));
        for i in 0..k {
            path.insert(0, 0);
            out = Expr::Bin(["+", "-"][i % 2], Box::new(out), Box::new(int_lit(1 + (i % 7) as u32)));
        }
        return out;
    }
    match s.below(5) {
        0 | 1 => e,
        2 => {
            path.insert(0, 0);
            Expr::Paren(Box::new(e))
        }
        3 => {
            path.insert(0, 0);
            path.insert(0, 1);
            Expr::Bin("+", Box::new(int_lit(3)), Box::new(Expr::Paren(Box::new(e))))
        }
        _ => {
            path.insert(0, 0);
            path.insert(0, 0);
            Expr::Neg(Box::new(Expr::Paren(Box::new(e))))
        }
    }
}

fn rename_calls(stmts: &mut [Stmt], bind: Bind, to: &str) {
    for s in stmts {
        match s {
            Stmt::Call(n, b, _) if *b == bind => *n = to.to_string(),
            Stmt::If(_, t, e) => {
                rename_calls(std::slice::from_mut(t), bind, to);
                if let Some(e) = e {
                    rename_calls(std::slice::from_mut(e), bind, to);
                }
            }
            Stmt::While(_, b) => rename_calls(std::slice::from_mut(b), bind, to),
            Stmt::Block(ss) => rename_calls(ss, bind, to),
            _ => {}
        }
    }
}

fn calls(stmts: &[Stmt], bind: Bind) -> bool {
    stmts.iter().any(|s| match s {
        Stmt::Call(_, b, _) => *b == bind,
        Stmt::If(_, t, e) => calls(std::slice::from_ref(t), bind) || e.as_ref().map_or(false, |e| calls(std::slice::from_ref(e), bind)),
        Stmt::While(_, b) => calls(std::slice::from_ref(b), bind),
        Stmt::Block(ss) => calls(ss, bind),
        _ => false,
    })
}

/// `UndefinedVariable`, variant: a procedure WITHOUT parameters and locals uses a name that is a
/// parameter or local of another procedure (names local to another procedure are not visible).
fn foreign_local_fault(s: &mut Src, base: &Prog) -> Option<Fault> {
    let globals: Vec<&str> = base.types.iter().map(|t| t.name.as_str()).chain(base.procs.iter().map(|p| p.name.as_str())).collect();
    let targets: Vec<usize> = (0..base.procs.len()).filter(|j| base.procs[*j].params.is_empty() && base.procs[*j].locals.is_empty() && base.order.contains(&Decl::Proc(*j))).collect();
    if targets.is_empty() {
        return None;
    }
    let p = targets[s.below(targets.len())];
    let mut names: Vec<String> = Vec::new();
    for (j, q) in base.procs.iter().enumerate() {
        if j != p {
            for v in q.params.iter().chain(q.locals.iter()) {
                if !globals.contains(&v.name.as_str()) && !BUILTINS.iter().any(|(b, _)| *b == v.name) && v.name != "printi" {
                    names.push(v.name.clone());
                }
            }
        }
    }
    if names.is_empty() {
        return None;
    }
    let n = names[s.below(names.len())].clone();
    let mut prog = base.clone();
    let stmt = Stmt::Call("printi".into(), Bind::BuiltinProc(0), vec![Expr::Var(Var::Name(n.clone(), Bind::Unbound))]);
    let decl = prog.order.iter().position(|d| *d == Decl::Proc(p)).unwrap();
    let pos = s.below(prog.procs[p].body.len() + 1);
    prog.procs[p].body.insert(pos, stmt);
    Some(Fault {
        kind: "UndefinedVariable",
        message: format!("undefined variable `{}`", n),
        base: base.clone(),
        prog,
        locator: Locator::AnyOf(vec![vec![decl, 1 + pos, 1]]),
        exact_token: true,
    })
}

pub fn inject(s: &mut Src, base: &Prog, kind: usize) -> Option<Fault> {
    let name = KINDS[kind];
    if name == "UndefinedVariable" && s.chance(1, 3) {
        if let Some(f) = foreign_local_fault(s, base) {
            return Some(f);
        }
    }
    let mut h = with_helpers(s, base, false)?;
    let base_with_helpers = h.prog.clone();
    let done = |prog: Prog, message: String, paths: Vec<Vec<usize>>, exact: bool| {
        Some(Fault { kind: name, message, base: base_with_helpers.clone(), prog, locator: Locator::AnyOf(paths), exact_token: exact })
    };
    let mut taken = all_names(&h.prog);
    let n_order = h.prog.order.len();
    let is_local = |h: &Helpers, n: &str| h.prog.procs[h.p].params.iter().chain(h.prog.procs[h.p].locals.iter()).any(|v| v.name == n);
    match name {
        "UndefinedType" => {
            let undef = fresh(&mut taken, "Undef");
            if s.chance(1, 2) {
                let vn = fresh(&mut taken, "nv");
                let nested = s.chance(1, 3);
                let expr = if nested {
                    TExpr::Array(Lit::Dec(3, "3".into()), Box::new(TExpr::Named(undef.clone())))
                } else {
                    TExpr::Named(undef.clone())
                };
                let proc = &mut h.prog.procs[h.p];
                proc.locals.push(VarDecl { name: vn, is_ref: false, expr, ty: Ty::Int });
                let idx = proc.params.len() + proc.locals.len();
                let mut path = vec![h.decl, idx, 1];
                if nested {
                    path.push(1);
                }
                done(h.prog, format!("undefined type `{}`", undef), vec![path], true)
            } else {
                let tn = fresh(&mut taken, "NT");
                h.prog.types.push(TypeDecl { name: tn, expr: TExpr::Named(undef.clone()), ty: Ty::Int });
                let at = s.below(n_order + 1);
                h.prog.order.insert(at, Decl::Type(h.prog.types.len() - 1));
                done(h.prog, format!("undefined type `{}`", undef), vec![vec![at, 1]], true)
            }
        }
        "NotAType" => {
            // an earlier local hides nothing but is not a type either (local-first lookup)
            let vn = fresh(&mut taken, "nv");
            let hi = h.hi.clone();
            let proc = &mut h.prog.procs[h.p];
            proc.locals.push(VarDecl { name: vn, is_ref: false, expr: TExpr::Named(hi.clone()), ty: Ty::Int });
            let idx = proc.params.len() + proc.locals.len();
            done(h.prog, format!("`{}` is not a type", hi), vec![vec![h.decl, idx, 1]], true)
        }
        "RedeclarationAsType" | "RedeclarationAsProcedure" => {
            // a second declaration of an already declared global, textually after the first
            let first = s.below(n_order);
            let existing = h.prog.decl_name(h.prog.order[first]).to_string();
            if existing == "main" && name == "RedeclarationAsType" {
                return None;
            }
            let at = first + 1 + s.below(n_order - first);
            if name == "RedeclarationAsType" {
                h.prog.types.push(TypeDecl { name: existing.clone(), expr: TExpr::Named("int".into()), ty: Ty::Int });
                h.prog.order.insert(at, Decl::Type(h.prog.types.len() - 1));
                done(h.prog, format!("redeclaration of `{}` as type", existing), vec![vec![at, 0]], true)
            } else {
                h.prog.procs.push(Proc { name: existing.clone(), params: vec![], locals: vec![], body: vec![] });
                h.prog.order.insert(at, Decl::Proc(h.prog.procs.len() - 1));
                done(h.prog, format!("redeclaration of `{}` as procedure", existing), vec![vec![at, 0]], true)
            }
        }
        "MustBeAReferenceParameter" => {
            let pn = fresh(&mut taken, "np");
            let qn = fresh(&mut taken, "q");
            let (expr, ty) = if s.chance(1, 2) {
                (TExpr::Named(h.ht.clone()), Ty::Arr { size: 2, base: Box::new(Ty::Int), creator: h.ht.clone() })
            } else {
                (
                    TExpr::Array(Lit::Dec(2, "2".into()), Box::new(TExpr::Named("int".into()))),
                    Ty::Arr { size: 2, base: Box::new(Ty::Int), creator: anon_creator(&pn, &qn) },
                )
            };
            let lead = s.chance(1, 2);
            let mut params = Vec::new();
            if lead {
                params.push(VarDecl { name: fresh(&mut taken, "q"), is_ref: false, expr: TExpr::Named("int".into()), ty: Ty::Int });
            }
            params.push(VarDecl { name: qn.clone(), is_ref: false, expr, ty });
            h.prog.procs.push(Proc { name: pn, params, locals: vec![], body: vec![] });
            let at = 1 + s.below(n_order);
            h.prog.order.insert(at, Decl::Proc(h.prog.procs.len() - 1));
            done(h.prog, format!("parameter `{}` must be a reference parameter", qn), vec![vec![at, if lead { 2 } else { 1 }, 0]], true)
        }
        "RedeclarationAsParameter" => {
            let pn = fresh(&mut taken, "np");
            let qn = fresh(&mut taken, "q");
            let int = || TExpr::Named("int".into());
            let params = vec![
                VarDecl { name: qn.clone(), is_ref: false, expr: int(), ty: Ty::Int },
                VarDecl { name: qn.clone(), is_ref: s.chance(1, 2), expr: int(), ty: Ty::Int },
            ];
            h.prog.procs.push(Proc { name: pn, params, locals: vec![], body: vec![] });
            let at = s.below(n_order + 1);
            h.prog.order.insert(at, Decl::Proc(h.prog.procs.len() - 1));
            done(h.prog, format!("redeclaration of `{}` as parameter", qn), vec![vec![at, 2, 0]], true)
        }
        "RedeclarationAsVariable" => {
            let proc = &mut h.prog.procs[h.p];
            let all: Vec<String> = proc.params.iter().chain(proc.locals.iter()).map(|v| v.name.clone()).collect();
            let dup = all[s.below(all.len())].clone();
            proc.locals.push(VarDecl { name: dup.clone(), is_ref: false, expr: TExpr::Named("int".into()), ty: Ty::Int });
            let idx = proc.params.len() + proc.locals.len();
            done(h.prog, format!("redeclaration of `{}` as variable", dup), vec![vec![h.decl, idx, 0]], true)
        }
        "MainIsMissing" => {
            let j = h.prog.procs.iter().position(|p| p.name == "main")?;
            let nn = fresh(&mut taken, "main_");
            h.prog.procs[j].name = nn.clone();
            for p in h.prog.procs.iter_mut() {
                rename_calls(&mut p.body, Bind::Proc(j), &nn);
            }
            // a local called `main` elsewhere stays untouched: it never denoted the procedure
            Some(Fault { kind: name, message: "procedure `main` is missing".into(), base: base_with_helpers, prog: h.prog, locator: Locator::Nowhere, exact_token: false })
        }
        "MainIsNotAProcedure" => {
            h.prog.types.push(TypeDecl { name: "main".into(), expr: TExpr::Named("int".into()), ty: Ty::Int });
            let at = s.below(n_order + 1);
            h.prog.order.insert(at, Decl::Type(h.prog.types.len() - 1));
            done(h.prog, "`main` is not a procedure".into(), vec![vec![at, 0]], true)
        }
        "MainMustNotHaveParameters" => {
            let j = h.prog.procs.iter().position(|p| p.name == "main")?;
            if h.prog.procs.iter().any(|p| calls(&p.body, Bind::Proc(j))) {
                return None;
            }
            let qn = fresh(&mut taken, "q");
            h.prog.procs[j].params.push(VarDecl { name: qn, is_ref: s.chance(1, 2), expr: TExpr::Named("int".into()), ty: Ty::Int });
            let d = h.prog.order.iter().position(|d| *d == Decl::Proc(j)).unwrap();
            done(h.prog, "procedure `main` must not have any parameters".into(), vec![vec![d, 0], vec![d, 1]], false)
        }
        _ => {
            // statement-level faults
            let hi = local_var(&h, &h.hi);
            let ha = local_var(&h, &h.ha);
            let hb = local_var(&h, &h.hb);
            let hx = local_var(&h, &h.ht1);
            let hy = local_var(&h, &h.ht2);
            let ev = |v: &Var| Expr::Var(v.clone());
            let empty = || Box::new(Stmt::Empty);
            let (stmt, message, sub, exact): (Stmt, String, Vec<usize>, bool) = match name {
                "AssignmentHasDifferentTypes" => {
                    if s.chance(1, 3) {
                        // a row of a nested array type against the whole type: different types
                        // that stem from the same declaration
                        let hm = local_var(&h, &h.hm);
                        let row = Var::Index(Box::new(hm.clone()), Box::new(int_lit(s.below(2) as u32)));
                        if s.chance(1, 2) {
                            (Stmt::Assign(row, ev(&hm)), "assignment has different types".into(), vec![], false)
                        } else {
                            (Stmt::Assign(hm, Expr::Var(row)), "assignment has different types".into(), vec![], false)
                        }
                    } else if s.chance(1, 2) {
                        (Stmt::Assign(hi.clone(), ev(&ha)), "assignment has different types".into(), vec![], false)
                    } else {
                        (Stmt::Assign(hx.clone(), ev(&ha)), "assignment has different types".into(), vec![], false)
                    }
                }
                "AssignmentRequiresIntegers" => (Stmt::Assign(hx.clone(), ev(&hy)), "assignment requires integer variable".into(), vec![], false),
                "IfConditionMustBeBoolean" => {
                    let c = if s.chance(1, 2) { Expr::Bin("+", Box::new(int_lit(1)), Box::new(ev(&hi))) } else { ev(&hi) };
                    let els = if s.chance(1, 2) { Some(empty()) } else { None };
                    (Stmt::If(c, empty(), els), "`if` test expression must be of type boolean".into(), vec![0], false)
                }
                "WhileConditionMustBeBoolean" => {
                    let c = if s.chance(1, 2) { Expr::Paren(Box::new(int_lit(1))) } else { ev(&hi) };
                    (Stmt::While(c, empty()), "`while` test expression must be of type boolean".into(), vec![0], false)
                }
                "UndefinedProcedure" => {
                    let n = fresh(&mut taken, "undef");
                    let args = if s.chance(1, 2) { vec![int_lit(1)] } else { vec![] };
                    (Stmt::Call(n.clone(), Bind::Unbound, args), format!("undefined procedure `{}`", n), vec![], false)
                }
                "CallOfNoneProcedure" => {
                    let n = if s.chance(1, 2) { h.hi.clone() } else { h.ht.clone() };
                    (Stmt::Call(n.clone(), Bind::Unbound, vec![int_lit(1)]), format!("call of non-procedure `{}`", n), vec![], false)
                }
                "ArgumentsTypeMismatch" => {
                    if is_local(&h, "printi") || is_local(&h, "setPixel") {
                        return None;
                    }
                    let user = if s.chance(1, 2) { callable_user_proc(s, &h, 1) } else { None };
                    if s.chance(1, 4) && !is_local(&h, &h.hq.1) {
                        // the row of a matrix where the matrix is expected (same declaring type)
                        let hm = local_var(&h, &h.hm);
                        let row = Var::Index(Box::new(hm), Box::new(int_lit(s.below(2) as u32)));
                        (
                            Stmt::Call(h.hq.1.clone(), Bind::Proc(h.hq.0), vec![Expr::Var(row)]),
                            format!("procedure `{}` argument `1` type mismatch", h.hq.1),
                            vec![1],
                            false,
                        )
                    } else if let Some((j, mut args)) = user {
                        // one argument of the wrong type: an array where an int is expected, or an
                        // array of another type where the helper array type is expected
                        let k = s.below(args.len());
                        let prm = &h.prog.procs[j].params[k];
                        args[k] = if prm.ty.is_int() { ev(&ha) } else { ev(&hb) };
                        let name = h.prog.procs[j].name.clone();
                        (
                            Stmt::Call(name.clone(), Bind::Proc(j), args),
                            format!("procedure `{}` argument `{}` type mismatch", name, k + 1),
                            vec![1 + k],
                            false,
                        )
                    } else if s.chance(1, 2) {
                        (
                            Stmt::Call("printi".into(), Bind::BuiltinProc(0), vec![ev(&ha)]),
                            "procedure `printi` argument `1` type mismatch".into(),
                            vec![1],
                            false,
                        )
                    } else {
                        let k = s.below(3);
                        let mut args = vec![int_lit(1), int_lit(2), int_lit(3)];
                        args[k] = ev(&hx);
                        (
                            Stmt::Call("setPixel".into(), Bind::BuiltinProc(7), args),
                            format!("procedure `setPixel` argument `{}` type mismatch", k + 1),
                            vec![1 + k],
                            false,
                        )
                    }
                }
                "ArgumentMustBeAVariable" => {
                    if is_local(&h, "readi") {
                        return None;
                    }
                    // a reference parameter of type int of a declared procedure, if there is one
                    let user = if s.chance(1, 2) { callable_user_proc(s, &h, 1) } else { None };
                    let user = user.and_then(|(j, args)| {
                        let refs: Vec<usize> = h.prog.procs[j].params.iter().enumerate().filter(|(_, p)| p.is_ref && p.ty.is_int()).map(|(k, _)| k).collect();
                        if refs.is_empty() { None } else { Some((j, args, refs)) }
                    });
                    if let Some((j, mut args, refs)) = user {
                        let k = refs[s.below(refs.len())];
                        args[k] = Expr::Bin("*", Box::new(ev(&hi)), Box::new(int_lit(2)));
                        let name = h.prog.procs[j].name.clone();
                        let stmt = Stmt::Call(name.clone(), Bind::Proc(j), args);
                        let stmt = normalize_stmt(stmt);
                        let mut path = place_stmt(s, &mut h, stmt);
                        path.push(1 + k);
                        return done(h.prog, format!("procedure `{}` argument `{}` must be a variable", name, k + 1), vec![path], false);
                    }
                    let a = match s.below(3) {
                        0 => Expr::Bin("+", Box::new(int_lit(1)), Box::new(int_lit(2))),
                        1 => int_lit(7),
                        _ => Expr::Paren(Box::new(ev(&hi))),
                    };
                    (
                        Stmt::Call("readi".into(), Bind::BuiltinProc(2), vec![a]),
                        "procedure `readi` argument `1` must be a variable".into(),
                        vec![1],
                        false,
                    )
                }
                "TooFewArguments" => {
                    if is_local(&h, "printi") || is_local(&h, "drawLine") {
                        return None;
                    }
                    let user = if s.chance(1, 2) { callable_user_proc(s, &h, 1) } else { None };
                    if let Some((j, mut args)) = user {
                        args.pop();
                        let name = h.prog.procs[j].name.clone();
                        (Stmt::Call(name.clone(), Bind::Proc(j), args), format!("procedure `{}` called with too few arguments", name), vec![], false)
                    } else if s.chance(1, 2) {
                        (Stmt::Call("printi".into(), Bind::BuiltinProc(0), vec![]), "procedure `printi` called with too few arguments".into(), vec![], false)
                    } else {
                        (
                            Stmt::Call("drawLine".into(), Bind::BuiltinProc(8), vec![int_lit(1), ev(&hi)]),
                            "procedure `drawLine` called with too few arguments".into(),
                            vec![],
                            false,
                        )
                    }
                }
                "TooManyArguments" => {
                    if is_local(&h, "exit") || is_local(&h, "printc") {
                        return None;
                    }
                    let user = if s.chance(1, 2) { callable_user_proc(s, &h, 0) } else { None };
                    if let Some((j, mut args)) = user {
                        args.push(int_lit(9));
                        let name = h.prog.procs[j].name.clone();
                        (Stmt::Call(name.clone(), Bind::Proc(j), args), format!("procedure `{}` called with too many arguments", name), vec![], false)
                    } else if s.chance(1, 2) {
                        (Stmt::Call("exit".into(), Bind::BuiltinProc(4), vec![int_lit(1)]), "procedure `exit` called with too many arguments".into(), vec![], false)
                    } else {
                        (
                            Stmt::Call("printc".into(), Bind::BuiltinProc(1), vec![int_lit(1), ev(&hi)]),
                            "procedure `printc` called with too many arguments".into(),
                            vec![],
                            false,
                        )
                    }
                }
                "OperatorDifferentTypes" => {
                    let (l, r) = if s.chance(1, 2) { (ev(&hi), ev(&ha)) } else { (ev(&hx), int_lit(1)) };
                    let op = *s.pick(&["+", "-", "*", "/"]);
                    let mut sub = vec![];
                    let e = wrap(s, Expr::Bin(op, Box::new(l), Box::new(r)), &mut sub);
                    let mut full = vec![1];
                    full.extend(sub);
                    (Stmt::Assign(hi.clone(), e), "expression combines different types".into(), full, false)
                }
                "ComparisonNonInteger" => {
                    let op = *s.pick(&["=", "#", "<", "<=", ">", ">="]);
                    // two arrays: of different types, of the same named type, or the same variable
                    let (l, r) = match s.below(4) {
                        0 => (ev(&ha), ev(&hb)),
                        1 => (ev(&ha), ev(&hx)),
                        2 => (ev(&hx), ev(&hy)),
                        _ => (ev(&hx), ev(&hx)),
                    };
                    let c = Expr::Bin(op, Box::new(l), Box::new(r));
                    if s.chance(1, 2) {
                        (Stmt::If(c, empty(), None), "comparison requires integer operands".into(), vec![0], false)
                    } else {
                        (Stmt::While(c, empty()), "comparison requires integer operands".into(), vec![0], false)
                    }
                }
                "ArithmeticOperatorNonInteger" => {
                    let op = *s.pick(&["+", "-", "*", "/"]);
                    let r = match s.below(3) {
                        0 => ev(&hy),
                        1 => ev(&ha),
                        _ => ev(&hb),
                    };
                    (
                        Stmt::Assign(hi.clone(), Expr::Bin(op, Box::new(ev(&ha)), Box::new(r))),
                        "arithmetic operation requires integer operands".into(),
                        vec![1],
                        false,
                    )
                }
                "UndefinedVariable" => {
                    let n = fresh(&mut taken, "zz");
                    let mut sub = vec![];
                    let e = wrap(s, Expr::Var(Var::Name(n.clone(), Bind::Unbound)), &mut sub);
                    let mut full = vec![1];
                    full.extend(sub);
                    (Stmt::Assign(hi.clone(), e), format!("undefined variable `{}`", n), full, true)
                }
                "NotAVariable" => {
                    let n = if s.chance(1, 2) { h.ht.clone() } else { h.prog.procs[h.p].name.clone() };
                    if is_local(&h, &n) {
                        return None;
                    }
                    let mut sub = vec![];
                    let e = wrap(s, Expr::Var(Var::Name(n.clone(), Bind::Unbound)), &mut sub);
                    let mut full = vec![1];
                    full.extend(sub);
                    (Stmt::Assign(hi.clone(), e), format!("`{}` is not a variable", n), full, true)
                }
                "IndexingNonArray" => {
                    let mut sub = vec![];
                    let e = wrap(s, Expr::Var(Var::Index(Box::new(hi.clone()), Box::new(int_lit(0)))), &mut sub);
                    let mut full = vec![1];
                    full.extend(sub);
                    (Stmt::Assign(hi.clone(), e), "illegal indexing a non-array".into(), full, false)
                }
                "IndexingWithNonInteger" => {
                    let idx = if s.chance(1, 2) {
                        Expr::Bin("<", Box::new(int_lit(1)), Box::new(int_lit(2)))
                    } else {
                        ev(&hb)
                    };
                    let mut sub = vec![1];
                    let e = wrap(s, Expr::Var(Var::Index(Box::new(ha.clone()), Box::new(idx))), &mut sub);
                    let mut full = vec![1];
                    full.extend(sub);
                    (Stmt::Assign(hi.clone(), e), "illegal indexing with a non-integer".into(), full, false)
                }
                _ => return None,
            };
            let stmt = normalize_stmt(stmt);
            let mut path = place_stmt(s, &mut h, stmt);
            path.extend(sub);
            done(h.prog, message, vec![path], exact)
        }
    }
}

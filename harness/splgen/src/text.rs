//! G3 text strata and G4 edit histories.

use crate::layout::{gen_layout, lay, Style};
use crate::prog::{gen_prog, GenCfg};
use crate::render::render;
use crate::src::Src;
use std::ops::Range;

pub const LEXEMES: [&str; 64] = [
    "(", ")", "[", "]", "{", "}", "=", "#", "<", "<=", ">", ">=", ":=", ":", ",", ";", "+", "-", "*", "/",
    "if", "else", "while", "array", "of", "proc", "ref", "type", "var", "int", "main", "x", "y", "a", "i",
    "iff", "typ", "procs", "_", "x1", "0", "1", "42", "007", "0x1F", "0xff", "0x", "99999999999", "'a'",
    "'\\n'", "' '", "'", "'a", "''", "// c\n", "//", "// x", "/", "é", "€", "😀", "@", "\\", "$",
];

pub const SEPARATORS: [&str; 10] = ["", " ", " ", "\n", "\t", "\r\n", "  ", "\n\n", "\r", " \n "];

pub const UNICODE_ALPHABET: [&str; 40] = [
    "a", "b", "x", "0", "9", " ", " ", "\n", "\n", "\r\n", "\r", "\t", "é", "ß", "€", "中", "😀", "🦀", "\u{2028}",
    "\u{0}", "\u{7f}", "\u{b}", "\u{c}", "/", "/", "'", "\\", ":", "=", "<", ";", "{", "}", "(", ")", "_", "x",
    "\u{feff}", "\u{a0}", "\u{300}",
];

#[derive(Clone, Copy, Debug, PartialEq, Eq, Hash, PartialOrd, Ord)]
pub enum Stratum {
    Valid,
    Damaged,
    Soup,
    Unicode,
    Empty,
}

impl Stratum {
    pub fn name(&self) -> &'static str {
        match self {
            Stratum::Valid => "valid",
            Stratum::Damaged => "damaged",
            Stratum::Soup => "soup",
            Stratum::Unicode => "unicode",
            Stratum::Empty => "empty",
        }
    }
}

pub fn gen_valid_text(s: &mut Src, cfg: &GenCfg, style: Style) -> String {
    let prog = gen_prog(s, cfg);
    let r = render(&prog);
    let l = gen_layout(&r.toks, s, style);
    lay(&r.toks, &l).text
}

pub fn soup(s: &mut Src, max_tokens: usize) -> String {
    let n = s.below(max_tokens + 1);
    let mut t = String::new();
    for _ in 0..n {
        t.push_str(LEXEMES[s.below(LEXEMES.len())]);
        t.push_str(SEPARATORS[s.below(SEPARATORS.len())]);
    }
    t
}

pub fn unicode(s: &mut Src, max_chars: usize) -> String {
    let n = s.below(max_chars + 1);
    let mut t = String::new();
    for _ in 0..n {
        t.push_str(UNICODE_ALPHABET[s.below(UNICODE_ALPHABET.len())]);
    }
    t
}

pub fn char_bounds(text: &str) -> Vec<usize> {
    text.char_indices().map(|(i, _)| i).chain(std::iter::once(text.len())).collect()
}

/// Damage a text with 1..=k small edits (token-ish deletions / insertions).
pub fn damage(s: &mut Src, text: &str, k: usize) -> String {
    let mut t = text.to_string();
    let n = 1 + s.below(k);
    for _ in 0..n {
        let e = gen_edit(s, &t, text);
        t.replace_range(e.range.clone(), &e.text);
    }
    t
}

/// A document of any stratum. Nesting stays within `cfg.max_depth`.
pub fn gen_document(s: &mut Src, cfg: &GenCfg) -> (Stratum, String) {
    match s.below(20) {
        0..=10 => {
            let style = if s.chance(1, 2) { Style::Commented } else { Style::Spaced };
            (Stratum::Valid, gen_valid_text(s, cfg, style))
        }
        11..=15 => {
            let v = gen_valid_text(s, cfg, Style::Commented);
            (Stratum::Damaged, damage(s, &v, 4))
        }
        16 | 17 => (Stratum::Soup, soup(s, 60)),
        18 => (Stratum::Unicode, unicode(s, 80)),
        _ => (Stratum::Empty, String::new()),
    }
}

#[derive(Clone, Debug, PartialEq, Eq)]
pub struct Edit {
    pub range: Range<usize>,
    pub text: String,
}

const SNIPPETS: [&str; 34] = [
    " ", "\n", ";", "(", ")", "{", "}", ",", ":", "=", "<", "/", "'", "0", "x", "a", "if", "else ", "while", "var ",
    "proc ", "type ", ":=", "//", "0x", "array [", "] of ", "x := 1;", "if (x < 1) {}", "proc p() {}\n",
    "type t = int;\n", "// note\n", "é", "😀",
];

/// One edit on character boundaries. `donor` supplies realistic insertion material.
pub fn gen_edit(s: &mut Src, text: &str, donor: &str) -> Edit {
    let b = char_bounds(text);
    let kind = s.below(16);
    // token-aligned edits use the reference lexer's token boundaries
    let toks = if kind >= 10 { crate::reflex::lex(text) } else { Vec::new() };
    if kind >= 10 && toks.len() > 1 {
        let ti = s.below(toks.len() - 1);
        let tr = toks[ti].range.clone();
        return match kind {
            10 => Edit { range: tr, text: String::new() },
            11 => Edit { range: tr.start..tr.start, text: format!("{} ", SNIPPETS[s.below(SNIPPETS.len())]) },
            12 => Edit { range: tr, text: LEXEMES[s.below(LEXEMES.len())].to_string() },
            13 => {
                // delete a run of tokens
                let tj = (ti + s.below(8)).min(toks.len() - 2);
                Edit { range: tr.start..toks[tj].range.end, text: String::new() }
            }
            14 => {
                // duplicate a run of tokens elsewhere
                let tj = (ti + s.below(8)).min(toks.len() - 2);
                let piece = text[tr.start..toks[tj].range.end].to_string();
                let at = toks[s.below(toks.len())].range.start;
                Edit { range: at..at, text: format!(" {} ", piece) }
            }
            _ => {
                // move the end of a comment: its line feed becomes a blank (the next line is
                // swallowed), or a line feed is put into it (its rest becomes code)
                let comments: Vec<&crate::reflex::RTok> = toks.iter().filter(|t| t.is_comment()).collect();
                if comments.is_empty() {
                    Edit { range: tr.clone(), text: text[tr].to_string() }
                } else {
                    let c = comments[s.below(comments.len())];
                    if s.chance(1, 2) && c.range.end < text.len() {
                        Edit { range: c.range.end..c.range.end + 1, text: " ".to_string() }
                    } else {
                        let b: Vec<usize> = (c.range.start + 2..=c.range.end).filter(|o| text.is_char_boundary(*o)).collect();
                        let at = b[s.below(b.len())];
                        Edit { range: at..at, text: "\n".to_string() }
                    }
                }
            }
        };
    }
    let ai = s.below(b.len());
    let a = b[ai];
    let maxlen = match kind {
        0..=3 => 0,
        4..=6 => 1,
        7 | 8 => 6,
        _ => 40,
    };
    let e = b[(ai + s.below(maxlen + 1)).min(b.len() - 1)];
    let ins: String = match s.below(8) {
        0 => String::new(),
        1 | 2 | 3 => SNIPPETS[s.below(SNIPPETS.len())].to_string(),
        4 | 5 => {
            let db = char_bounds(donor);
            let st = s.below(db.len());
            let en = (st + s.below(30)).min(db.len() - 1);
            donor[db[st]..db[en]].to_string()
        }
        6 => "\n".to_string(),
        _ => text[a..e].to_string(),
    };
    Edit { range: a..e, text: ins }
}

/// A history: batches of 1..=3 edits, each relative to the text left by its predecessor.
pub fn gen_history(s: &mut Src, initial: &str, max_batches: usize) -> Vec<Vec<Edit>> {
    let nb = 1 + s.below(max_batches);
    let mut cur = initial.to_string();
    let mut out = Vec::new();
    for _ in 0..nb {
        let k = if s.chance(3, 10) { 2 + s.below(2) } else { 1 };
        let mut batch = Vec::new();
        for _ in 0..k {
            let e = gen_edit(s, &cur, initial);
            cur.replace_range(e.range.clone(), &e.text);
            batch.push(e);
        }
        out.push(batch);
    }
    out
}

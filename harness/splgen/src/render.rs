//! G1 (part 2): rendering of a program model into a token list. Every token carries its site
//! (production + slot), its global declaration, and for identifiers its binding. Alongside, the
//! expected syntax tree (R4) is produced with token spans in model-token space.

use crate::prog::*;

#[derive(Clone, Debug, PartialEq, Eq)]
pub enum Role {
    Other,
    Decl(Bind),
    Use(Bind),
}

#[derive(Clone, Copy, Debug, PartialEq, Eq)]
pub enum TokClass {
    Keyword,
    Symbol,
    Ident,
    Number,
}

#[derive(Clone, Debug)]
pub struct Tok {
    pub text: String,
    pub class: TokClass,
    pub role: Role,
    /// `owner:slot` or `parent.slot>owner:first`
    pub site: String,
    /// index into `Prog::order`
    pub decl: usize,
    /// enclosing procedure (index into `Prog::procs`), if any
    pub proc: Option<usize>,
    /// statement nesting depth (0 = directly in the procedure body)
    pub depth: usize,
    /// true for the first token of a statement
    pub stmt_start: bool,
}

#[derive(Clone, Debug, PartialEq, Eq)]
pub struct ENode {
    pub kind: String,
    pub first: usize,
    pub last: usize,
    /// declarations collect the comments in front of them as documentation
    pub has_doc: bool,
    pub children: Vec<ENode>,
}

pub struct Rendered {
    pub toks: Vec<Tok>,
    pub tree: ENode,
}

struct Frame {
    owner: &'static str,
    slot: &'static str,
    first_pending: bool,
}

struct R<'p> {
    prog: &'p Prog,
    toks: Vec<Tok>,
    frames: Vec<Frame>,
    decl: usize,
    proc: Option<usize>,
    depth: usize,
    stmt_start_pending: bool,
}

impl<'p> R<'p> {
    fn enter(&mut self, owner: &'static str) {
        self.frames.push(Frame { owner, slot: "first", first_pending: true });
    }
    fn leave(&mut self) {
        self.frames.pop();
    }
    fn slot(&mut self, slot: &'static str) {
        if let Some(f) = self.frames.last_mut() {
            f.slot = slot;
        }
    }
    fn site(&mut self) -> String {
        let n = self.frames.len();
        let top_first = self.frames[n - 1].first_pending;
        if top_first {
            // the token starts the innermost owner; name the slot of the parent it sits in
            let mut k = n - 1;
            // several owners may start at this token; the outermost pending one decides
            while k > 0 && self.frames[k - 1].first_pending {
                k -= 1;
            }
            let site = if k == 0 {
                format!("top.decl>{}:first", self.frames[0].owner)
            } else {
                format!("{}.{}>{}:first", self.frames[k - 1].owner, self.frames[k - 1].slot, self.frames[k].owner)
            };
            for f in self.frames.iter_mut() {
                f.first_pending = false;
            }
            site
        } else {
            format!("{}:{}", self.frames[n - 1].owner, self.frames[n - 1].slot)
        }
    }
    fn emit(&mut self, text: &str, class: TokClass, role: Role) -> usize {
        let site = self.site();
        let stmt_start = std::mem::take(&mut self.stmt_start_pending);
        self.toks.push(Tok {
            text: text.to_string(),
            class,
            role,
            site,
            decl: self.decl,
            proc: self.proc,
            depth: self.depth,
            stmt_start,
        });
        self.toks.len() - 1
    }
    fn kw(&mut self, s: &str) -> usize {
        self.emit(s, TokClass::Keyword, Role::Other)
    }
    fn sym(&mut self, s: &str) -> usize {
        self.emit(s, TokClass::Symbol, Role::Other)
    }
    fn id(&mut self, s: &str, role: Role) -> ENode {
        let i = self.emit(s, TokClass::Ident, role);
        leaf(format!("Ident({})", s), i)
    }
    fn lit(&mut self, l: &Lit) -> ENode {
        let i = self.emit(&l.text(), TokClass::Number, Role::Other);
        leaf(format!("Int({})", l.value()), i)
    }

    fn texpr(&mut self, e: &TExpr) -> ENode {
        match e {
            TExpr::Named(n) => {
                let role = if n == "int" {
                    Role::Use(Bind::BuiltinInt)
                } else {
                    match self.prog.types.iter().position(|t| &t.name == n) {
                        Some(i) => Role::Use(Bind::Type(i)),
                        None => Role::Use(Bind::Unbound),
                    }
                };
                self.id(n, role)
            }
            TExpr::Array(sz, b) => {
                let first = self.kw("array");
                self.sym("[");
                let size = self.lit(sz);
                self.sym("]");
                self.kw("of");
                let base = self.texpr(b);
                let last = base.last;
                ENode { kind: "ArrayType".into(), first, last, has_doc: false, children: vec![size, base] }
            }
        }
    }

    fn var(&mut self, v: &Var) -> ENode {
        match v {
            Var::Name(n, b) => self.id(n, Role::Use(*b)),
            Var::Index(a, i) => {
                let arr = self.var(a);
                self.sym("[");
                let idx = self.expr(i);
                let last = self.sym("]");
                ENode { kind: "Access".into(), first: arr.first, last, has_doc: false, children: vec![arr, idx] }
            }
        }
    }

    fn expr(&mut self, e: &Expr) -> ENode {
        match e {
            Expr::Lit(l) => self.lit(l),
            Expr::Var(v) => self.var(v),
            Expr::Neg(e) => {
                let first = self.sym("-");
                let inner = self.expr(e);
                ENode { kind: "Neg".into(), first, last: inner.last, has_doc: false, children: vec![inner] }
            }
            Expr::Paren(e) => {
                let first = self.sym("(");
                let inner = self.expr(e);
                let last = self.sym(")");
                ENode { kind: "Paren".into(), first, last, has_doc: false, children: vec![inner] }
            }
            Expr::Bin(op, l, r) => {
                let l = self.expr(l);
                self.sym(op);
                let r = self.expr(r);
                ENode { kind: format!("Bin({})", op), first: l.first, last: r.last, has_doc: false, children: vec![l, r] }
            }
        }
    }

    fn stmt(&mut self, s: &Stmt) -> ENode {
        self.stmt_start_pending = true;
        match s {
            Stmt::Empty => {
                self.enter("empty");
                let i = self.sym(";");
                self.leave();
                leaf("Empty".into(), i)
            }
            Stmt::Assign(v, e) => {
                self.enter("assign");
                // the first token is the start of the target; later target tokens use slot `target`
                let target = self.var_in_slot(v, "target");
                self.slot("op");
                self.sym(":=");
                self.slot("value");
                let value = self.expr(e);
                self.slot("semic");
                let last = self.sym(";");
                self.leave();
                ENode { kind: "Assign".into(), first: target.first, last, has_doc: false, children: vec![target, value] }
            }
            Stmt::Call(n, b, args) => {
                self.enter("call");
                let name = self.id(n, Role::Use(*b));
                self.slot("lparen");
                self.sym("(");
                let mut children = vec![name];
                for (i, a) in args.iter().enumerate() {
                    if i > 0 {
                        self.slot("comma");
                        self.sym(",");
                    }
                    self.slot("arg");
                    children.push(self.expr(a));
                }
                self.slot("rparen");
                self.sym(")");
                self.slot("semic");
                let last = self.sym(";");
                self.leave();
                ENode { kind: "Call".into(), first: children[0].first, last, has_doc: false, children }
            }
            Stmt::If(c, t, e) => {
                self.enter("if");
                let first = self.kw("if");
                self.slot("lparen");
                self.sym("(");
                self.slot("cond");
                let cond = self.expr(c);
                self.slot("rparen");
                self.sym(")");
                self.slot("then");
                self.depth += 1;
                let then = self.stmt(t);
                self.depth -= 1;
                let mut last = then.last;
                let mut children = vec![cond, then];
                if let Some(e) = e {
                    self.slot("else");
                    self.kw("else");
                    self.slot("elsebranch");
                    self.depth += 1;
                    let els = self.stmt(e);
                    self.depth -= 1;
                    last = els.last;
                    children.push(els);
                }
                self.leave();
                ENode { kind: "If".into(), first, last, has_doc: false, children }
            }
            Stmt::While(c, b) => {
                self.enter("while");
                let first = self.kw("while");
                self.slot("lparen");
                self.sym("(");
                self.slot("cond");
                let cond = self.expr(c);
                self.slot("rparen");
                self.sym(")");
                self.slot("body");
                self.depth += 1;
                let body = self.stmt(b);
                self.depth -= 1;
                let last = body.last;
                self.leave();
                ENode { kind: "While".into(), first, last, has_doc: false, children: vec![cond, body] }
            }
            Stmt::Block(ss) => {
                self.enter("block");
                let first = self.sym("{");
                self.slot("item");
                self.depth += 1;
                let children: Vec<ENode> = ss.iter().map(|s| self.stmt(s)).collect();
                self.depth -= 1;
                self.slot("rcurly");
                self.stmt_start_pending = false;
                let last = self.sym("}");
                self.leave();
                ENode { kind: "Block".into(), first, last, has_doc: false, children }
            }
        }
    }

    fn var_in_slot(&mut self, v: &Var, slot: &'static str) -> ENode {
        match v {
            Var::Name(n, b) => {
                let node = self.id(n, Role::Use(*b));
                self.slot(slot);
                node
            }
            Var::Index(a, i) => {
                let arr = self.var_in_slot(a, slot);
                self.sym("[");
                let idx = self.expr(i);
                let last = self.sym("]");
                ENode { kind: "Access".into(), first: arr.first, last, has_doc: false, children: vec![arr, idx] }
            }
        }
    }

    fn vardecl(&mut self, v: &VarDecl, role: Role, is_param: bool) -> ENode {
        if is_param {
            self.enter("param");
            let mut first = None;
            if v.is_ref {
                first = Some(self.kw("ref"));
                self.slot("name");
            }
            let name = self.id(&v.name, role);
            let first = first.unwrap_or(name.first);
            self.slot("colon");
            self.sym(":");
            self.slot("type");
            let ty = self.texpr(&v.expr);
            self.leave();
            let last = ty.last;
            ENode {
                kind: if v.is_ref { "Param(ref)".into() } else { "Param".into() },
                first,
                last,
                has_doc: true,
                children: vec![name, ty],
            }
        } else {
            self.enter("vardec");
            let first = self.kw("var");
            self.slot("name");
            let name = self.id(&v.name, role);
            self.slot("colon");
            self.sym(":");
            self.slot("type");
            let ty = self.texpr(&v.expr);
            self.slot("semic");
            let last = self.sym(";");
            self.leave();
            ENode { kind: "VarDec".into(), first, last, has_doc: true, children: vec![name, ty] }
        }
    }
}

fn leaf(kind: String, i: usize) -> ENode {
    ENode { kind, first: i, last: i, has_doc: false, children: vec![] }
}

pub fn render(prog: &Prog) -> Rendered {
    let mut r = R { prog, toks: Vec::new(), frames: Vec::new(), decl: 0, proc: None, depth: 0, stmt_start_pending: false };
    let mut decls = Vec::new();
    for (di, d) in prog.order.iter().enumerate() {
        r.decl = di;
        match d {
            Decl::Type(i) => {
                let t = &prog.types[*i];
                r.proc = None;
                r.enter("typedec");
                let first = r.kw("type");
                r.slot("name");
                let name = r.id(&t.name, Role::Decl(Bind::Type(*i)));
                r.slot("eq");
                r.sym("=");
                r.slot("type");
                let ty = r.texpr(&t.expr);
                r.slot("semic");
                let last = r.sym(";");
                r.leave();
                decls.push(ENode { kind: "TypeDec".into(), first, last, has_doc: true, children: vec![name, ty] });
            }
            Decl::Proc(j) => {
                let p = &prog.procs[*j];
                r.proc = Some(*j);
                r.enter("proc");
                let first = r.kw("proc");
                r.slot("name");
                let name = r.id(&p.name, Role::Decl(Bind::Proc(*j)));
                let mut children = vec![name];
                r.slot("lparen");
                r.sym("(");
                for (k, prm) in p.params.iter().enumerate() {
                    if k > 0 {
                        r.slot("comma");
                        r.sym(",");
                    }
                    r.slot("param");
                    children.push(r.vardecl(prm, Role::Decl(Bind::Param(*j, k)), true));
                }
                r.slot("rparen");
                r.sym(")");
                r.slot("lcurly");
                r.sym("{");
                r.slot("local");
                for (k, l) in p.locals.iter().enumerate() {
                    children.push(r.vardecl(l, Role::Decl(Bind::Local(*j, k)), false));
                }
                r.slot("body");
                r.depth = 0;
                for s in &p.body {
                    children.push(r.stmt(s));
                }
                r.slot("rcurly");
                r.stmt_start_pending = false;
                let last = r.sym("}");
                r.leave();
                decls.push(ENode { kind: "ProcDec".into(), first, last, has_doc: true, children });
            }
        }
    }
    let n = r.toks.len();
    let tree = ENode {
        kind: "Program".into(),
        first: 0,
        last: if n == 0 { 0 } else { n - 1 },
        has_doc: false,
        children: decls,
    };
    Rendered { toks: r.toks, tree }
}

impl ENode {
    pub fn sexpr(&self) -> String {
        if self.children.is_empty() {
            self.kind.clone()
        } else {
            format!(
                "({} {})",
                self.kind,
                self.children.iter().map(|c| c.sexpr()).collect::<Vec<_>>().join(" ")
            )
        }
    }
    pub fn count(&self) -> usize {
        1 + self.children.iter().map(|c| c.count()).sum::<usize>()
    }
}

//! R1: reference lexer for the SPL lexical grammar. Hand-written scanner, independent of the
//! repository's nom lexer. Longest match; keywords only as whole words; decimal, `0x` hexadecimal
//! and character literals with their values; comments run to the end of the line or of the text;
//! every other character is one `Unknown`.

use std::ops::Range;

pub const KEYWORDS: [&str; 9] = [
    "if", "else", "while", "array", "of", "proc", "ref", "type", "var",
];

pub const SYMBOLS: [&str; 20] = [
    "(", ")", "[", "]", "{", "}", "=", "#", "<", "<=", ">", ">=", ":=", ":", ",", ";", "+", "-", "*",
    "/",
];

#[derive(Clone, Debug, PartialEq, Eq, Hash)]
pub enum RKind {
    Sym(&'static str),
    Kw(&'static str),
    Ident(String),
    /// decimal literal; None when it does not fit 32 bits
    Int(Option<u32>),
    /// hexadecimal literal; None when digits are missing or it does not fit 32 bits
    Hex(Option<u32>),
    /// character literal and whether the closing tick is present
    Char(char, bool),
    /// text after `//` up to (not including) the line feed
    Comment(String),
    Unknown(char),
    Eof,
}

#[derive(Clone, Debug, PartialEq, Eq)]
pub struct RTok {
    pub kind: RKind,
    /// byte range; for comments it ends *before* the terminating line feed
    pub range: Range<usize>,
}

impl RTok {
    pub fn is_comment(&self) -> bool {
        matches!(self.kind, RKind::Comment(_))
    }
    pub fn is_lexically_valid(&self) -> bool {
        !matches!(
            self.kind,
            RKind::Int(None) | RKind::Hex(None) | RKind::Char(_, false) | RKind::Unknown(_)
        )
    }
}

pub fn is_space(c: char) -> bool {
    c == ' ' || c == '\t' || c == '\r' || c == '\n'
}

fn is_ident_start(c: char) -> bool {
    c.is_ascii_alphabetic() || c == '_'
}

fn is_ident_cont(c: char) -> bool {
    c.is_ascii_alphanumeric() || c == '_'
}

pub fn lex(text: &str) -> Vec<RTok> {
    let b = text.as_bytes();
    let n = b.len();
    let mut out = Vec::new();
    let mut i = 0usize;
    while i < n {
        let c = text[i..].chars().next().unwrap();
        if is_space(c) {
            i += 1;
            continue;
        }
        let start = i;
        // comment
        if c == '/' && i + 1 < n && b[i + 1] == b'/' {
            let mut j = i + 2;
            while j < n && b[j] != b'\n' {
                j += 1;
            }
            out.push(RTok { kind: RKind::Comment(text[i + 2..j].to_string()), range: start..j });
            i = if j < n { j + 1 } else { j };
            continue;
        }
        // identifiers and keywords
        if is_ident_start(c) {
            let mut j = i + 1;
            while j < n && is_ident_cont(b[j] as char) && b[j] < 128 {
                j += 1;
            }
            let word = &text[i..j];
            let kind = match KEYWORDS.iter().find(|k| **k == word) {
                Some(k) => RKind::Kw(k),
                None => RKind::Ident(word.to_string()),
            };
            out.push(RTok { kind, range: start..j });
            i = j;
            continue;
        }
        // numbers
        if c.is_ascii_digit() {
            if c == '0' && i + 1 < n && b[i + 1] == b'x' {
                let mut j = i + 2;
                while j < n && (b[j] as char).is_ascii_hexdigit() {
                    j += 1;
                }
                let digits = &text[i + 2..j];
                let v = if digits.is_empty() { None } else { u32::from_str_radix(digits, 16).ok() };
                out.push(RTok { kind: RKind::Hex(v), range: start..j });
                i = j;
                continue;
            }
            let mut j = i + 1;
            while j < n && b[j].is_ascii_digit() {
                j += 1;
            }
            let v = text[i..j].parse::<u32>().ok();
            out.push(RTok { kind: RKind::Int(v), range: start..j });
            i = j;
            continue;
        }
        // character literal
        if c == '\'' {
            if i + 1 < n {
                let (ch, len) = if text[i + 1..].starts_with("\\n") {
                    ('\n', 2)
                } else {
                    let ch = text[i + 1..].chars().next().unwrap();
                    (ch, ch.len_utf8())
                };
                let j = i + 1 + len;
                if j < n && b[j] == b'\'' {
                    out.push(RTok { kind: RKind::Char(ch, true), range: start..j + 1 });
                    i = j + 1;
                } else {
                    out.push(RTok { kind: RKind::Char(ch, false), range: start..j });
                    i = j;
                }
                continue;
            }
            out.push(RTok { kind: RKind::Unknown('\''), range: start..start + 1 });
            i += 1;
            continue;
        }
        // symbols, longest match first
        let two = if i + 2 <= n && text.is_char_boundary(i + 2) { &text[i..i + 2] } else { "" };
        if let Some(s) = SYMBOLS.iter().find(|s| s.len() == 2 && **s == two) {
            out.push(RTok { kind: RKind::Sym(s), range: start..i + 2 });
            i += 2;
            continue;
        }
        let one = &text[i..i + c.len_utf8()];
        if let Some(s) = SYMBOLS.iter().find(|s| s.len() == 1 && **s == one) {
            out.push(RTok { kind: RKind::Sym(s), range: start..i + 1 });
            i += 1;
            continue;
        }
        out.push(RTok { kind: RKind::Unknown(c), range: start..i + c.len_utf8() });
        i += c.len_utf8();
    }
    out.push(RTok { kind: RKind::Eof, range: n..n });
    out
}

/// True when writing `a` directly followed by `b` would be tokenised differently from `a b`.
pub fn needs_sep(a: &str, b: &str) -> bool {
    let joined = format!("{}{}", a, b);
    let t = lex(&joined);
    let ta = lex(a);
    let tb = lex(b);
    if t.len() != ta.len() + tb.len() - 1 {
        return true;
    }
    for (k, tok) in ta.iter().take(ta.len() - 1).enumerate() {
        if t[k] != *tok {
            return true;
        }
    }
    let off = a.len();
    for (k, tok) in tb.iter().take(tb.len() - 1).enumerate() {
        let x = &t[ta.len() - 1 + k];
        if x.kind != tok.kind || x.range != (tok.range.start + off..tok.range.end + off) {
            return true;
        }
    }
    false
}

/// Trimmed comment texts in order.
pub fn comments(text: &str) -> Vec<String> {
    lex(text)
        .into_iter()
        .filter_map(|t| match t.kind {
            RKind::Comment(c) => Some(c.trim().to_string()),
            _ => None,
        })
        .collect()
}

/// Kinds of all non-comment tokens (values, not spellings).
pub fn code_kinds(text: &str) -> Vec<RKind> {
    lex(text).into_iter().filter(|t| !t.is_comment()).map(|t| t.kind).collect()
}

#[cfg(test)]
mod tests {
    use super::*;
    #[test]
    fn basics() {
        let t = lex("iff if x<=0x1F // c\n'a' '\\n' 12ab");
        let k: Vec<_> = t.iter().map(|t| t.kind.clone()).collect();
        assert_eq!(
            k,
            vec![
                RKind::Ident("iff".into()),
                RKind::Kw("if"),
                RKind::Ident("x".into()),
                RKind::Sym("<="),
                RKind::Hex(Some(31)),
                RKind::Comment(" c".into()),
                RKind::Char('a', true),
                RKind::Char('\n', true),
                RKind::Int(Some(12)),
                RKind::Ident("ab".into()),
                RKind::Eof
            ]
        );
        assert!(needs_sep("a", "b"));
        assert!(needs_sep("<", "="));
        assert!(needs_sep("/", "/"));
        assert!(!needs_sep("a", "("));
        assert!(needs_sep("0", "x1"));
        assert!(!needs_sep("1", "x"));
    }
}

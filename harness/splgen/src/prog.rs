//! G1 (part 1): program model and generator. A derivation tree that is well-typed by construction
//! against SPL's rules: one global namespace for types and procedures, types declared before use,
//! procedures callable before their declaration, parameters and locals shadow globals, array-typed
//! parameters are reference parameters, name equivalence for array types (every array type
//! expression creates a new type; aliases share it).

use crate::src::Src;

#[derive(Clone, Debug, PartialEq, Eq)]
pub enum Ty {
    Int,
    Arr { size: u32, base: Box<Ty>, creator: String },
}

impl Ty {
    pub fn is_int(&self) -> bool {
        matches!(self, Ty::Int)
    }
    /// Rendering of the fully resolved type as the SPL tools print it.
    pub fn show(&self) -> String {
        match self {
            Ty::Int => "int".to_string(),
            Ty::Arr { size, base, .. } => format!("array [{}] of {}", size, base.show()),
        }
    }
    /// Name of the type declaration that created the outermost array type (None for int and for
    /// anonymous array types, whose creator is marked `<anon:...>`).
    pub fn declared_creator(&self) -> Option<&str> {
        match self {
            Ty::Arr { creator, .. } if !creator.starts_with('<') => Some(creator),
            _ => None,
        }
    }
}

#[derive(Clone, Debug, PartialEq)]
pub enum Lit {
    Dec(u32, String),
    Hex(u32, String),
    Char(char),
}

impl Lit {
    pub fn text(&self) -> String {
        match self {
            Lit::Dec(_, s) | Lit::Hex(_, s) => s.clone(),
            Lit::Char(c) => {
                if *c == '\n' {
                    "'\\n'".to_string()
                } else {
                    format!("'{}'", c)
                }
            }
        }
    }
    pub fn value(&self) -> u32 {
        match self {
            Lit::Dec(v, _) | Lit::Hex(v, _) => *v,
            Lit::Char(c) => (*c as u8) as u32,
        }
    }
    pub fn is_plain_dec(&self) -> bool {
        matches!(self, Lit::Dec(v, s) if &v.to_string() == s)
    }
}

#[derive(Clone, Debug)]
pub enum TExpr {
    Named(String),
    Array(Lit, Box<TExpr>),
}

#[derive(Clone, Copy, Debug, PartialEq, Eq, Hash, PartialOrd, Ord)]
pub enum Bind {
    Type(usize),
    Proc(usize),
    Param(usize, usize),
    Local(usize, usize),
    BuiltinProc(usize),
    BuiltinInt,
    /// only in injected faults: a name that is bound to nothing (or to the wrong kind of entity)
    Unbound,
}

#[derive(Clone, Debug)]
pub enum Var {
    Name(String, Bind),
    Index(Box<Var>, Box<Expr>),
}

#[derive(Clone, Debug)]
pub enum Expr {
    Lit(Lit),
    Var(Var),
    Neg(Box<Expr>),
    Paren(Box<Expr>),
    Bin(&'static str, Box<Expr>, Box<Expr>),
}

#[derive(Clone, Debug)]
pub enum Stmt {
    Empty,
    Assign(Var, Expr),
    Call(String, Bind, Vec<Expr>),
    If(Expr, Box<Stmt>, Option<Box<Stmt>>),
    While(Expr, Box<Stmt>),
    Block(Vec<Stmt>),
}

#[derive(Clone, Debug)]
pub struct TypeDecl {
    pub name: String,
    pub expr: TExpr,
    pub ty: Ty,
}

#[derive(Clone, Debug)]
pub struct VarDecl {
    pub name: String,
    pub is_ref: bool,
    pub expr: TExpr,
    pub ty: Ty,
}

#[derive(Clone, Debug)]
pub struct Proc {
    pub name: String,
    pub params: Vec<VarDecl>,
    pub locals: Vec<VarDecl>,
    pub body: Vec<Stmt>,
}

#[derive(Clone, Copy, Debug, PartialEq, Eq)]
pub enum Decl {
    Type(usize),
    Proc(usize),
}

#[derive(Clone, Debug, Default)]
pub struct Prog {
    pub types: Vec<TypeDecl>,
    pub procs: Vec<Proc>,
    pub order: Vec<Decl>,
}

pub const KEYWORDS: [&str; 9] = ["if", "else", "while", "array", "of", "proc", "ref", "type", "var"];

/// name, reference-ness of parameters, parameter names as the server announces them
pub const BUILTINS: [(&str, &[(&str, bool)]); 10] = [
    ("printi", &[("i", false)]),
    ("printc", &[("i", false)]),
    ("readi", &[("i", true)]),
    ("readc", &[("i", true)]),
    ("exit", &[]),
    ("time", &[("i", true)]),
    ("clearAll", &[("color", false)]),
    ("setPixel", &[("x", false), ("y", false), ("z", false)]),
    ("drawLine", &[("x1", false), ("y1", false), ("x2", false), ("y2", false), ("color", false)]),
    ("drawCircle", &[("x0", false), ("y0", false), ("radius", false), ("color", false)]),
];

const NAME_POOL: [&str; 56] = [
    "a", "b", "c", "i", "j", "k", "n", "x", "y", "v", "m", "t", "res", "tmp", "val", "idx", "sum",
    "cnt", "_u", "x1", "y2", "iff", "typ", "procs", "elsex", "of_", "A", "Vec", "var1", "if2", "of3",
    "proc0", "type9", "while_", "ref7", "array2", "intVec", "exitAll", "timer", "printi2", "int_", "readcx",
    // boundary spellings: lone underscores, prefixes of `main`, a very long name
    "_", "__", "a_b_c", "X9", "mainx", "main_", "m4in",
    "a_rather_long_identifier_name_with_many_parts_0123456789_and_more_parts_ABCDEFGHIJKLMNOPQRSTUVWXYZ_end",
    // other case than a keyword / predefined name: plain identifiers
    "Main", "Int", "Printi", "If", "WHILE",
    // longer than 256 characters
    "an_identifier_of_more_than_two_hundred_and_fifty_six_characters_0123456789_abcdefghijklmnopqrstuvwxyz_ABCDEFGHIJKLMNOPQRSTUVWXYZ_0123456789_abcdefghijklmnopqrstuvwxyz_ABCDEFGHIJKLMNOPQRSTUVWXYZ_0123456789_abcdefghijklmnopqrstuvwxyz_ABCDEFGHIJKLMNOPQRSTUVWXYZ_0123456789_the_end",
];

#[derive(Clone, Debug)]
pub struct GenCfg {
    pub max_decls: usize,
    pub max_depth: usize,
    pub max_params: usize,
    pub max_locals: usize,
    pub max_stmts: usize,
    /// probability (x/16) that a parameter/local re-uses the name of a global entity
    pub shadow_16: usize,
    /// probability (x/16) that a parameter/local is named like a predefined procedure (valid SPL:
    /// the procedure then cannot be called there); 0 = never and no choice is consumed
    pub predef_shadow_16: usize,
    /// total node budget
    pub budget: usize,
}

impl Default for GenCfg {
    fn default() -> Self {
        Self { max_decls: 8, max_depth: 4, max_params: 5, max_locals: 5, max_stmts: 5, shadow_16: 2, predef_shadow_16: 0, budget: 260 }
    }
}

struct Gen<'s, 'a> {
    /// this program may nest array types up to 6 levels (otherwise 3)
    deep_types: bool,
    s: &'s mut Src<'a>,
    prog: Prog,
    used_global: Vec<String>,
    cfg: GenCfg,
    budget: usize,
}

fn reserved(n: &str) -> bool {
    n == "int" || n == "main" || KEYWORDS.contains(&n) || BUILTINS.iter().any(|(b, _)| *b == n)
}

impl<'s, 'a> Gen<'s, 'a> {
    fn spend(&mut self) -> bool {
        if self.budget == 0 {
            false
        } else {
            self.budget -= 1;
            true
        }
    }

    fn fresh(&mut self, taken: &dyn Fn(&str) -> bool, prefix: &str) -> String {
        for _ in 0..3 {
            let n = NAME_POOL[self.s.below(NAME_POOL.len())];
            if !taken(n) {
                return n.to_string();
            }
        }
        let mut i = 0;
        loop {
            let n = format!("{}{}", prefix, i);
            if !taken(&n) {
                return n;
            }
            i += 1;
        }
    }

    fn global_name(&mut self, prefix: &str) -> String {
        let used = self.used_global.clone();
        self.fresh(&|n| reserved(n) || used.iter().any(|u| u == n), prefix)
    }

    fn lit(&mut self, small: bool) -> Lit {
        match self.s.below(10) {
            0..=5 => {
                let v = if small { self.s.below(10) } else { self.s.below(200) } as u32;
                Lit::Dec(v, v.to_string())
            }
            6 => {
                let v = if self.s.chance(1, 6) { *self.s.pick(&[0x7FFFFFFFu32, 0x7FFFFFF0, 0x10000, 0xFFFF, 0xABCDEF]) } else { self.s.below(256) as u32 };
                let txt = match self.s.below(4) {
                    0 => format!("0x{:x}", v),
                    1 => format!("0x{:X}", v),
                    2 => format!("0x{:02X}", v),
                    _ => format!("0x{:04x}", v),
                };
                Lit::Hex(v, txt)
            }
            7 => Lit::Char(*self.s.pick(&['a', 'Z', ' ', '\n', '0', '+', '/', '_', '~', '"', '\\', '{', '#', '\t', 'ä', '€', '😀'])),
            8 => {
                let v = self.s.below(65536) as u32;
                Lit::Dec(v, v.to_string())
            }
            _ => {
                // leading zeros / large values
                if self.s.chance(1, 2) {
                    let v = self.s.below(100) as u32;
                    Lit::Dec(v, format!("0{}", v))
                } else {
                    let v = 2147483647u32 - self.s.below(100) as u32;
                    Lit::Dec(v, v.to_string())
                }
            }
        }
    }

    /// Type expression over already declared types; `shadow` lists names that hide a type here.
    fn texpr(&mut self, depth: usize, shadow: &[String]) -> (TExpr, Ty) {
        let nt = self.prog.types.len();
        let c = self.s.below(8);
        let limit = if self.deep_types { 6 } else { 3 };
        if depth < limit && c >= 6 {
            let size = if self.s.chance(1, 4) {
                let l = self.lit(true);
                if l.value() == 0 { Lit::Dec(1, "1".into()) } else { l }
            } else {
                let v = 1 + self.s.below(9) as u32;
                Lit::Dec(v, v.to_string())
            };
            let (b, bt) = self.texpr(depth + 1, shadow);
            let sz = size.value();
            (TExpr::Array(size, Box::new(b)), Ty::Arr { size: sz, base: Box::new(bt), creator: String::new() })
        } else if nt > 0 && c >= 2 {
            let i = self.s.below(nt);
            let t = &self.prog.types[i];
            if shadow.iter().any(|n| n == &t.name) {
                return (TExpr::Named("int".into()), Ty::Int);
            }
            (TExpr::Named(t.name.clone()), t.ty.clone())
        } else {
            (TExpr::Named("int".into()), Ty::Int)
        }
    }

    fn gen_type(&mut self) {
        let name = self.global_name("T");
        let (expr, ty) = self.texpr(0, &[]);
        let ty = set_creator(ty, &name);
        self.used_global.push(name.clone());
        self.prog.types.push(TypeDecl { name, expr, ty });
        self.prog.order.push(Decl::Type(self.prog.types.len() - 1));
    }

    fn local_name(&mut self, taken: &[String], prefix: &str, allow_shadow: bool) -> (String, bool) {
        if allow_shadow && !self.used_global.is_empty() && self.s.below(16) < self.cfg.shadow_16 {
            let g = self.used_global[self.s.below(self.used_global.len())].clone();
            if !taken.iter().any(|t| t == &g) {
                return (g, true);
            }
        }
        if allow_shadow && self.cfg.predef_shadow_16 > 0 && self.s.below(16) < self.cfg.predef_shadow_16 {
            let g = BUILTINS[self.s.below(BUILTINS.len())].0.to_string();
            if !taken.iter().any(|t| t == &g) {
                return (g, true);
            }
        }
        let taken = taken.to_vec();
        (self.fresh(&|n| KEYWORDS.contains(&n) || n == "int" || taken.iter().any(|u| u == n), prefix), false)
    }

    fn gen_proc_sig(&mut self, is_main: bool) -> usize {
        let name = if is_main { "main".to_string() } else { self.global_name("p") };
        self.used_global.push(name.clone());
        let mut taken: Vec<String> = Vec::new();
        let mut params = Vec::new();
        if !is_main {
            let np = if self.s.chance(1, 24) { self.cfg.max_params + 1 + self.s.below(8) } else { self.s.below(self.cfg.max_params + 1) };
            for _ in 0..np {
                let (pname, shadows) = self.local_name(&taken.clone(), "q", true);
                // parameter types are resolved in the global scope only
                let (expr, ty) = self.texpr(1, &[]);
                // a name that shadows a global never gets an anonymous array type (see DESIGN C12)
                let (expr, ty) = if shadows && matches!(expr, TExpr::Array(..)) {
                    (TExpr::Named("int".into()), Ty::Int)
                } else {
                    (expr, ty)
                };
                let ty = set_creator(ty, &anon_creator(&name, &pname));
                let is_ref = if !ty.is_int() { true } else { self.s.chance(1, 3) };
                taken.push(pname.clone());
                params.push(VarDecl { name: pname, is_ref, expr, ty });
            }
        }
        let nl = if self.s.chance(1, 24) { 17 + self.s.below(24) } else { self.s.below(self.cfg.max_locals + 1) };
        let mut locals = Vec::new();
        for _ in 0..nl {
            let (lname, shadows) = self.local_name(&taken.clone(), "l", true);
            // local variable types are resolved local-first: earlier params/locals hide type names
            let (expr, ty) = self.texpr(0, &taken.clone());
            let (expr, ty) = if shadows && matches!(expr, TExpr::Array(..)) {
                (TExpr::Named("int".into()), Ty::Int)
            } else {
                (expr, ty)
            };
            let ty = set_creator(ty, &anon_creator(&name, &lname));
            taken.push(lname.clone());
            locals.push(VarDecl { name: lname, is_ref: false, expr, ty });
        }
        self.prog.procs.push(Proc { name, params, locals, body: Vec::new() });
        self.prog.order.push(Decl::Proc(self.prog.procs.len() - 1));
        self.prog.procs.len() - 1
    }

    fn var_of_type(&mut self, p: usize, want: &Ty, depth: usize) -> Option<Var> {
        let proc = &self.prog.procs[p];
        let mut cands: Vec<(String, Bind, Ty)> = Vec::new();
        for (k, v) in proc.params.iter().enumerate() {
            cands.push((v.name.clone(), Bind::Param(p, k), v.ty.clone()));
        }
        for (k, v) in proc.locals.iter().enumerate() {
            cands.push((v.name.clone(), Bind::Local(p, k), v.ty.clone()));
        }
        let reach: Vec<_> = cands
            .into_iter()
            .filter(|(_, _, t)| {
                let mut t = t;
                loop {
                    if t == want {
                        return true;
                    }
                    match t {
                        Ty::Arr { base, .. } => t = base,
                        Ty::Int => return false,
                    }
                }
            })
            .collect();
        if reach.is_empty() {
            return None;
        }
        let (name, bind, ty) = reach[self.s.below(reach.len())].clone();
        let mut v = Var::Name(name, bind);
        let mut t = ty;
        while &t != want {
            match t {
                Ty::Arr { base, size, .. } => {
                    let idx = if depth >= self.cfg.max_depth || !self.spend() {
                        let k = self.s.below(size.max(1) as usize) as u32;
                        Expr::Lit(Lit::Dec(k, k.to_string()))
                    } else {
                        self.int_expr(p, depth + 1)
                    };
                    v = Var::Index(Box::new(v), Box::new(idx));
                    t = *base;
                }
                Ty::Int => unreachable!(),
            }
        }
        Some(v)
    }

    fn int_expr(&mut self, p: usize, depth: usize) -> Expr {
        let leaf = depth >= self.cfg.max_depth || !self.spend();
        let c = if leaf { self.s.below(4) } else { self.s.below(12) };
        match c {
            0 | 1 => Expr::Lit(self.lit(false)),
            2 | 3 => match self.var_of_type(p, &Ty::Int, depth) {
                Some(v) => Expr::Var(v),
                None => Expr::Lit(self.lit(true)),
            },
            4 => Expr::Neg(Box::new(self.int_expr(p, depth + 1))),
            5 => Expr::Paren(Box::new(self.int_expr(p, depth + 1))),
            _ => {
                let op = ["+", "-", "*", "/"][self.s.below(4)];
                let l = self.int_expr(p, depth + 1);
                let r = self.int_expr(p, depth + 1);
                Expr::Bin(op, Box::new(l), Box::new(r))
            }
        }
    }

    fn cond(&mut self, p: usize, depth: usize) -> Expr {
        let op = ["=", "#", "<", "<=", ">", ">="][self.s.below(6)];
        let l = self.int_expr(p, depth + 1);
        let r = self.int_expr(p, depth + 1);
        let e = Expr::Bin(op, Box::new(l), Box::new(r));
        if self.s.chance(1, 8) {
            Expr::Paren(Box::new(e))
        } else {
            e
        }
    }

    fn is_local_name(&self, p: usize, n: &str) -> bool {
        let me = &self.prog.procs[p];
        me.params.iter().chain(me.locals.iter()).any(|v| v.name == n)
    }

    fn call(&mut self, p: usize, depth: usize) -> Stmt {
        let nprocs = self.prog.procs.len();
        let total = nprocs + BUILTINS.len();
        for _ in 0..3 {
            let i = self.s.below(total);
            if i < nprocs {
                let callee = self.prog.procs[i].clone();
                if self.is_local_name(p, &callee.name) {
                    continue;
                }
                let mut args = Vec::new();
                let mut ok = true;
                for prm in &callee.params {
                    if prm.is_ref {
                        // anonymous array types match nothing
                        if matches!(&prm.ty, Ty::Arr { creator, .. } if creator.starts_with('<')) {
                            ok = false;
                            break;
                        }
                        match self.var_of_type(p, &prm.ty, depth) {
                            Some(v) => args.push(Expr::Var(v)),
                            None => {
                                ok = false;
                                break;
                            }
                        }
                    } else {
                        args.push(self.int_expr(p, depth + 1));
                    }
                }
                if ok {
                    return Stmt::Call(callee.name.clone(), Bind::Proc(i), args);
                }
            } else {
                let bi = i - nprocs;
                let (name, params) = BUILTINS[bi];
                if self.is_local_name(p, name) {
                    continue;
                }
                let mut args = Vec::new();
                let mut ok = true;
                for (_, is_ref) in params.iter() {
                    if *is_ref {
                        match self.var_of_type(p, &Ty::Int, depth) {
                            Some(v) => args.push(Expr::Var(v)),
                            None => {
                                ok = false;
                                break;
                            }
                        }
                    } else {
                        args.push(self.int_expr(p, depth + 1));
                    }
                }
                if ok {
                    return Stmt::Call(name.to_string(), Bind::BuiltinProc(bi), args);
                }
            }
        }
        if self.is_local_name(p, "exit") {
            Stmt::Empty
        } else {
            Stmt::Call("exit".into(), Bind::BuiltinProc(4), vec![])
        }
    }

    fn stmt(&mut self, p: usize, depth: usize) -> Stmt {
        let leaf = depth >= self.cfg.max_depth || !self.spend();
        let c = if leaf { self.s.below(5) } else { self.s.below(13) };
        match c {
            0 => Stmt::Empty,
            1 | 2 => match self.var_of_type(p, &Ty::Int, depth) {
                Some(v) => Stmt::Assign(v, self.int_expr(p, depth)),
                None => Stmt::Empty,
            },
            3 | 4 => self.call(p, depth),
            5 | 6 | 7 => {
                let c = self.cond(p, depth);
                let t = self.stmt(p, depth + 1);
                let e = if self.s.chance(1, 2) { Some(Box::new(self.stmt(p, depth + 1))) } else { None };
                Stmt::If(c, Box::new(t), e)
            }
            8 | 9 => {
                let c = self.cond(p, depth);
                let b = self.stmt(p, depth + 1);
                Stmt::While(c, Box::new(b))
            }
            _ => {
                let n = self.s.below(4);
                Stmt::Block((0..n).map(|_| self.stmt(p, depth + 1)).collect())
            }
        }
    }
}

impl<'s, 'a> Gen<'s, 'a> {
    /// Scale features (one program in 10 gets one): constructs whose size or depth is far beyond
    /// the usual - a long operator chain, a long else-if chain, deeply nested loops, a long
    /// statement list. Operands, conditions and bodies are leaves.
    fn add_scale_feature(&mut self) {
        if self.prog.procs.is_empty() {
            return;
        }
        let p = self.s.below(self.prog.procs.len());
        let leaf = self.cfg.max_depth;
        let simple = |g: &mut Self| match g.s.below(3) {
            0 => match g.var_of_type(p, &Ty::Int, leaf) {
                Some(v) => Stmt::Assign(v, g.int_expr(p, leaf)),
                None => Stmt::Empty,
            },
            1 => g.call(p, leaf),
            _ => Stmt::Empty,
        };
        let mut new: Vec<Stmt> = Vec::new();
        match self.s.below(4) {
            0 => {
                // v := v + x + 1 + ... (33-64 operators, left-nested)
                let k = 33 + self.s.below(32);
                let mut e = self.int_expr(p, leaf);
                for _ in 0..k {
                    let op = ["+", "-", "*", "/"][self.s.below(4)];
                    let r = self.int_expr(p, leaf);
                    e = Expr::Bin(op, Box::new(e), Box::new(r));
                }
                new.push(match self.var_of_type(p, &Ty::Int, leaf) {
                    Some(v) => Stmt::Assign(v, e),
                    None if !self.is_local_name(p, "printi") => Stmt::Call("printi".into(), Bind::BuiltinProc(0), vec![e]),
                    None => Stmt::Empty,
                });
            }
            1 => {
                // if (c) S else if (c) S ... (29-40 branches)
                let k = 29 + self.s.below(12);
                let mut chain: Option<Box<Stmt>> = if self.s.chance(1, 2) { Some(Box::new(simple(self))) } else { None };
                for _ in 0..k {
                    let c = self.cond(p, leaf);
                    let body = if self.s.chance(1, 2) { Stmt::Block(vec![simple(self)]) } else { simple(self) };
                    chain = Some(Box::new(Stmt::If(c, Box::new(body), chain)));
                }
                new.push(*chain.unwrap());
            }
            2 => {
                // 33-40 nested loops / blocks
                let k = 33 + self.s.below(8);
                let mut inner = simple(self);
                for i in 0..k {
                    inner = if i % 2 == 0 {
                        let c = self.cond(p, leaf);
                        Stmt::While(c, Box::new(inner))
                    } else {
                        Stmt::Block(vec![inner])
                    };
                }
                new.push(inner);
            }
            _ => {
                // a statement list of 17-48 statements
                let k = 17 + self.s.below(32);
                for _ in 0..k {
                    new.push(simple(self));
                }
            }
        }
        let body = &mut self.prog.procs[p].body;
        let at = self.s.below(body.len() + 1);
        body.splice(at..at, new);
    }
}

pub fn anon_creator(proc: &str, name: &str) -> String {
    format!("<anon:{}.{}>", proc, name)
}

fn set_creator(t: Ty, name: &str) -> Ty {
    match t {
        Ty::Int => Ty::Int,
        Ty::Arr { size, base, creator } => {
            if creator.is_empty() {
                // nested anonymous arrays inside one type expression share the declaring name
                Ty::Arr { size, base: Box::new(set_creator(*base, name)), creator: name.to_string() }
            } else {
                Ty::Arr { size, base, creator }
            }
        }
    }
}

pub fn gen_prog(s: &mut Src, cfg: &GenCfg) -> Prog {
    let mut g = Gen { deep_types: false, s, prog: Prog::default(), used_global: Vec::new(), cfg: cfg.clone(), budget: cfg.budget };
    g.deep_types = g.s.chance(1, 10);
    // one program in 24 is large: up to four times the usual number of global declarations
    let n = if g.s.chance(1, 24) {
        g.budget *= 3;
        cfg.max_decls + 1 + g.s.below(3 * cfg.max_decls)
    } else {
        1 + g.s.below(cfg.max_decls)
    };
    let main_at = g.s.below(n);
    let mut proc_ids = Vec::new();
    for i in 0..n {
        if i == main_at {
            proc_ids.push(g.gen_proc_sig(true));
        } else if g.s.chance(2, 5) {
            g.gen_type();
        } else {
            proc_ids.push(g.gen_proc_sig(false));
        }
    }
    for p in proc_ids {
        let ns = g.s.below(cfg.max_stmts + 1);
        let body = (0..ns).map(|_| g.stmt(p, 0)).collect();
        g.prog.procs[p].body = body;
    }
    if g.s.chance(1, 10) {
        g.add_scale_feature();
    }
    normalize_prog(g.prog)
}

/// One more well-typed statement for procedure `p` of an existing program.
pub fn gen_stmt(s: &mut Src, prog: &Prog, p: usize, cfg: &GenCfg) -> Stmt {
    let mut g = Gen { deep_types: false, s, prog: prog.clone(), used_global: Vec::new(), cfg: cfg.clone(), budget: cfg.budget.min(40) };
    let depth = g.cfg.max_depth.saturating_sub(2);
    normalize_stmt(g.stmt(p, depth))
}

/// One more declaration (a type or a procedure with a small body), appended to the vectors; the
/// caller decides where it goes in `order`. Type declarations only use `int` so that they may
/// be placed anywhere.
pub fn gen_decl(s: &mut Src, prog: &mut Prog, cfg: &GenCfg) -> Decl {
    let used: Vec<String> = prog.types.iter().map(|t| t.name.clone()).chain(prog.procs.iter().map(|p| p.name.clone())).collect();
    let mut g = Gen { deep_types: false, s, prog: std::mem::take(prog), used_global: used, cfg: cfg.clone(), budget: 30 };
    let d = if g.s.chance(1, 2) {
        let name = g.global_name("T");
        let (expr, ty) = if g.s.chance(1, 2) {
            (TExpr::Named("int".into()), Ty::Int)
        } else {
            let n = 1 + g.s.below(9) as u32;
            (
                TExpr::Array(Lit::Dec(n, n.to_string()), Box::new(TExpr::Named("int".into()))),
                Ty::Arr { size: n, base: Box::new(Ty::Int), creator: name.clone() },
            )
        };
        g.used_global.push(name.clone());
        g.prog.types.push(TypeDecl { name, expr, ty });
        Decl::Type(g.prog.types.len() - 1)
    } else {
        // gen_proc_sig appends to `order`; undo that, the caller places it
        let types_before = g.prog.types.clone();
        // parameters and locals of the new procedure use `int` only, so it can stand anywhere
        g.prog.types.clear();
        let j = g.gen_proc_sig(false);
        g.prog.types = types_before;
        g.prog.order.pop();
        let ns = g.s.below(3);
        let body = (0..ns).map(|_| g.stmt(j, g.cfg.max_depth.saturating_sub(1))).collect::<Vec<_>>();
        g.prog.procs[j].body = body.into_iter().map(normalize_stmt).collect();
        Decl::Proc(j)
    };
    *prog = g.prog;
    d
}

pub fn prec(op: &str) -> u8 {
    match op {
        "*" | "/" => 3,
        "+" | "-" => 2,
        _ => 1,
    }
}

/// Insert parentheses exactly where precedence / left associativity / the single non-associative
/// comparison would otherwise make the parser derive a different tree from the rendering. After
/// normalisation the model tree *is* the derivation the SPL grammar mandates for its own text.
pub fn normalize(e: Expr) -> Expr {
    match e {
        Expr::Bin(op, l, r) => {
            let p = prec(op);
            let l = normalize(*l);
            let r = normalize(*r);
            let l = match &l {
                Expr::Bin(lo, ..) if prec(lo) < p || (p == 1 && prec(lo) == 1) => Expr::Paren(Box::new(l)),
                _ => l,
            };
            let r = match &r {
                Expr::Bin(ro, ..) if prec(ro) <= p => Expr::Paren(Box::new(r)),
                _ => r,
            };
            Expr::Bin(op, Box::new(l), Box::new(r))
        }
        Expr::Neg(e) => {
            let e = normalize(*e);
            let e = match &e {
                Expr::Bin(..) => Expr::Paren(Box::new(e)),
                _ => e,
            };
            Expr::Neg(Box::new(e))
        }
        Expr::Paren(e) => Expr::Paren(Box::new(normalize(*e))),
        Expr::Var(v) => Expr::Var(normalize_var(v)),
        e => e,
    }
}

fn normalize_var(v: Var) -> Var {
    match v {
        Var::Index(a, i) => Var::Index(Box::new(normalize_var(*a)), Box::new(normalize(*i))),
        v => v,
    }
}

pub fn normalize_stmt(s: Stmt) -> Stmt {
    match s {
        Stmt::Assign(v, e) => Stmt::Assign(normalize_var(v), normalize(e)),
        Stmt::Call(n, b, a) => Stmt::Call(n, b, a.into_iter().map(normalize).collect()),
        Stmt::If(c, t, e) => {
            let t = normalize_stmt(*t);
            // dangling else: an `else` binds to the nearest `if`
            let t = if e.is_some() && ends_with_open_if(&t) { Stmt::Block(vec![t]) } else { t };
            Stmt::If(normalize(c), Box::new(t), e.map(|e| Box::new(normalize_stmt(*e))))
        }
        Stmt::While(c, b) => Stmt::While(normalize(c), Box::new(normalize_stmt(*b))),
        Stmt::Block(ss) => Stmt::Block(ss.into_iter().map(normalize_stmt).collect()),
        s => s,
    }
}

fn ends_with_open_if(s: &Stmt) -> bool {
    match s {
        Stmt::If(_, _, None) => true,
        Stmt::If(_, _, Some(e)) => ends_with_open_if(e),
        Stmt::While(_, b) => ends_with_open_if(b),
        _ => false,
    }
}

pub fn normalize_prog(mut p: Prog) -> Prog {
    for pr in p.procs.iter_mut() {
        pr.body = std::mem::take(&mut pr.body).into_iter().map(normalize_stmt).collect();
    }
    p
}

impl Prog {
    pub fn decl_name(&self, d: Decl) -> &str {
        match d {
            Decl::Type(i) => &self.types[i].name,
            Decl::Proc(j) => &self.procs[j].name,
        }
    }
    /// `proc name(p: T, ref q: T)` as hover / signature help must show it
    pub fn proc_signature(&self, j: usize) -> String {
        let p = &self.procs[j];
        format!(
            "proc {}({})",
            p.name,
            p.params.iter().map(|v| var_signature(v)).collect::<Vec<_>>().join(", ")
        )
    }
}

pub fn var_signature(v: &VarDecl) -> String {
    format!("{}{}: {}", if v.is_ref { "ref " } else { "" }, v.name, v.ty.show())
}

pub fn builtin_signature(bi: usize) -> String {
    let (name, params) = BUILTINS[bi];
    format!(
        "proc {}({})",
        name,
        params
            .iter()
            .map(|(n, r)| format!("{}{}: int", if *r { "ref " } else { "" }, n))
            .collect::<Vec<_>>()
            .join(", ")
    )
}

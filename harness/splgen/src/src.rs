//! Choice stream: every random decision of every generator is read from one byte string.
//! The property library (proptest) generates and shrinks the byte string; the decoders below turn
//! it into structured cases. Byte 0 always selects the simplest alternative and the mapping into
//! ranges is monotone, so shrinking the bytes shrinks the case.

pub struct Src<'a> {
    pub data: &'a [u8],
    pub pos: usize,
}

impl<'a> Src<'a> {
    pub fn new(data: &'a [u8]) -> Self {
        Self { data, pos: 0 }
    }

    pub fn byte(&mut self) -> u8 {
        let b = self.data.get(self.pos).copied().unwrap_or(0);
        self.pos += 1;
        b
    }

    /// Monotone map of one (n <= 256) or two bytes into 0..n.
    pub fn below(&mut self, n: usize) -> usize {
        if n <= 1 {
            return 0;
        }
        if n <= 256 {
            (self.byte() as usize * n) >> 8
        } else {
            let v = ((self.byte() as usize) << 8) | self.byte() as usize;
            (v * n.min(65536)) >> 16
        }
    }

    /// True with probability num/den; a zero byte always yields false.
    pub fn chance(&mut self, num: usize, den: usize) -> bool {
        self.below(den) >= den - num
    }

    /// Inclusive range.
    pub fn range(&mut self, lo: usize, hi: usize) -> usize {
        lo + self.below(hi - lo + 1)
    }

    pub fn pick<'b, T>(&mut self, xs: &'b [T]) -> &'b T {
        &xs[self.below(xs.len())]
    }

    pub fn exhausted(&self) -> bool {
        self.pos >= self.data.len()
    }

    pub fn consumed(&self) -> usize {
        self.pos.min(self.data.len())
    }
}

/// FNV-1a, used for distinct-case counting and derived seeds (no dependency on std's random state).
pub fn fnv(bytes: &[u8]) -> u64 {
    let mut h: u64 = 0xcbf29ce484222325;
    for b in bytes {
        h ^= *b as u64;
        h = h.wrapping_mul(0x100000001b3);
    }
    h
}

//! G1 (part 3): layouts. A layout assigns to every gap (before each token and after the last one)
//! whitespace and zero or more `// …` comment lines. Text, byte ranges and absolute token indices
//! (comments are tokens of the language server's stream) are computed from tokens + layout.

use crate::reflex;
use crate::render::Tok;
use crate::src::Src;
use std::ops::Range;

#[derive(Clone, Debug, Default, PartialEq, Eq)]
pub struct Gap {
    /// whitespace before the first comment (or before the token if there is none)
    pub pre: String,
    /// (text after `//`, whitespace after the line feed that ends the comment)
    pub comments: Vec<(String, String)>,
}

#[derive(Clone, Debug, PartialEq, Eq)]
pub struct Layout {
    /// `gaps[i]` precedes token i; `gaps[n]` follows the last token
    pub gaps: Vec<Gap>,
    /// the very last comment of the text is not terminated by a line feed
    pub open_last_comment: bool,
    /// line feed flavour used to end comments ("\n" or "\r\n" is *not* offered: a comment ends at `\n`)
    pub trailing: String,
}

#[derive(Clone, Debug)]
pub struct Laid {
    pub text: String,
    /// byte range of every model token
    pub ranges: Vec<Range<usize>>,
    /// index of every model token in the server's token stream (comments included)
    pub abs: Vec<usize>,
    /// for every gap: the comment texts (after `//`, up to the line feed) and their byte ranges
    pub gap_comments: Vec<Vec<(String, Range<usize>)>>,
    pub n_comments: usize,
}

#[derive(Clone, Copy, Debug, PartialEq, Eq)]
pub enum Style {
    /// one space between tokens, line feeds after `;`, `{`, `}`
    Plain,
    /// random whitespace, no comments
    Spaced,
    /// random whitespace and comments in any gap
    Commented,
    /// random whitespace, comments only in front of declarations / statements (leading positions)
    LeadingComments,
}

const SEPS: [&str; 12] = [" ", " ", "\n", "  ", "\t", "\n  ", "\r\n", "", "\n\n", " \t ", "\r\n\t", "\n\n\n"];
const AFTER_COMMENT: [&str; 6] = ["", "  ", "\t", "\n", "    ", "\r\n"];

pub fn comment_text(s: &mut Src, counter: &mut usize) -> String {
    *counter += 1;
    match s.below(9) {
        0 | 1 => format!(" c{}", counter),
        // far wider than any usual line width
        8 => format!(" c{} {}", counter, "wide comment text ".repeat(7 + s.below(6))),
        6 => format!(" c{} \u{2028}x\u{85}y\u{2029} ä€😀", counter),
        7 => format!(" c{}\r", counter),
        2 => format!("c{}", counter),
        3 => format!(" c{} more words ", counter),
        4 => format!("/ c{} // nested", counter),
        _ => format!("\tc{} ;{{}}", counter),
    }
}

pub fn gen_layout(toks: &[Tok], s: &mut Src, style: Style) -> Layout {
    let n = toks.len();
    let mut gaps = Vec::with_capacity(n + 1);
    let mut counter = 0usize;
    for i in 0..=n {
        let mut g = Gap::default();
        match style {
            Style::Plain => {
                if i > 0 && i < n {
                    let prev = toks[i - 1].text.as_str();
                    g.pre = if prev == ";" || prev == "{" || prev == "}" { "\n".into() } else { " ".into() };
                } else if i == n && n > 0 {
                    g.pre = "\n".into();
                }
            }
            _ => {
                if i > 0 || s.chance(1, 4) {
                    g.pre = SEPS[s.below(SEPS.len())].to_string();
                }
                let leading_ok = i < n
                    && (toks[i].site.ends_with(":first")
                        && !toks[i].site.contains(">block")
                        || toks[i].site.starts_with("top."));
                let allow = match style {
                    Style::Commented => true,
                    Style::LeadingComments => leading_ok,
                    _ => false,
                };
                if allow && s.chance(1, 8) {
                    let k = 1 + s.below(2);
                    for _ in 0..k {
                        let c = comment_text(s, &mut counter);
                        let after = AFTER_COMMENT[s.below(AFTER_COMMENT.len())].to_string();
                        g.comments.push((c, after));
                    }
                }
            }
        }
        gaps.push(g);
    }
    let open_last_comment = style == Style::Commented && s.chance(1, 6);
    Layout { gaps, open_last_comment, trailing: String::new() }
}

/// Layout with exactly the given comments: `(gap index, text)`; whitespace from the stream.
pub fn layout_with_comments(toks: &[Tok], s: &mut Src, comments: &[(usize, String)]) -> Layout {
    let mut l = gen_layout(toks, s, Style::Spaced);
    for (g, text) in comments {
        let after = AFTER_COMMENT[s.below(AFTER_COMMENT.len())].to_string();
        l.gaps[*g].comments.push((text.clone(), after));
    }
    l
}

pub fn lay(toks: &[Tok], layout: &Layout) -> Laid {
    let n = toks.len();
    assert_eq!(layout.gaps.len(), n + 1);
    let mut text = String::new();
    let mut ranges = Vec::with_capacity(n);
    let mut abs = Vec::with_capacity(n);
    let mut gap_comments = Vec::with_capacity(n + 1);
    let mut ncom = 0usize;
    let total_comments: usize = layout.gaps.iter().map(|g| g.comments.len()).sum();
    for i in 0..=n {
        let g = &layout.gaps[i];
        let mut here = Vec::new();
        let prev = if i > 0 { Some(toks[i - 1].text.as_str()) } else { None };
        let mut pre = g.pre.clone();
        if !g.comments.is_empty() {
            if let Some(p) = prev {
                if pre.is_empty() && reflex::needs_sep(p, "//") {
                    pre.push(' ');
                }
            }
        }
        text.push_str(&pre);
        for (k, (c, after)) in g.comments.iter().enumerate() {
            let st = text.len();
            text.push_str("//");
            text.push_str(c);
            let en = text.len();
            ncom += 1;
            let is_last_of_text = i == n && k + 1 == g.comments.len() && ncom == total_comments;
            if !(is_last_of_text && layout.open_last_comment) {
                text.push('\n');
                text.push_str(after);
            }
            here.push((c.clone(), st..en));
        }
        if i < n {
            if g.comments.is_empty() {
                if let Some(p) = prev {
                    if pre.is_empty() && reflex::needs_sep(p, &toks[i].text) {
                        text.push(' ');
                    }
                }
            }
            let st = text.len();
            text.push_str(&toks[i].text);
            ranges.push(st..text.len());
            abs.push(i + ncom);
        }
        gap_comments.push(here);
    }
    text.push_str(&layout.trailing);
    Laid { text, ranges, abs, gap_comments, n_comments: ncom }
}

impl Laid {
    /// number of comment tokens directly in front of model token i
    pub fn leading(&self, i: usize) -> usize {
        self.gap_comments[i].len()
    }
    /// absolute token range of a node spanning model tokens first..=last, leading comments included
    pub fn node_range(&self, first: usize, last: usize) -> Range<usize> {
        (self.abs[first] - self.leading(first))..(self.abs[last] + 1)
    }
    /// model token whose byte range contains the offset
    pub fn token_at(&self, offset: usize) -> Option<usize> {
        self.ranges.iter().position(|r| r.contains(&offset))
    }
}

//! C08 The server's copy of a document always equals the client's, positions included.

use crate::driver::*;
use crate::features;
use crate::srv::{self, Srv};
use lsp_types::*;
use serde_json::{json, Value};
use splgen::lsp::{self, Change, Pos};
use splgen::reflex::{self, RKind};
use splgen::src::{fnv, Src};

// U+2028, U+2029, U+0085, VT and FF are line ends for Unicode but NOT for LSP (only LF, CRLF, CR are)
const ALPHABET: [&str; 33] = [
    "a", "b", "x", "1", " ", " ", ";", "(", ")", ":=", "\n", "\n", "\r\n", "\r", "é", "€", "😀", "🦀", "//", "{", "}", "proc ",
    "main", "var ", "\t", "\n\n", "int", "'", "\u{2028}", "\u{2029}", "\u{85}", "\u{b}", "\u{c}",
];

pub fn gen_text(s: &mut Src, max: usize) -> String {
    let n = s.below(max + 1);
    (0..n).map(|_| ALPHABET[s.below(ALPHABET.len())]).collect()
}

/// A position for the current client text: valid, overshooting column, overshooting line.
pub fn gen_pos(s: &mut Src, text: &str, labels: &mut Vec<&'static str>) -> Pos {
    let lines = lsp::lines(text);
    match s.below(10) {
        0 => {
            labels.push("line-overshoot");
            Pos { line: lines.len() as u32 + s.below(3) as u32, character: s.below(5) as u32 }
        }
        1 | 2 => {
            let l = s.below(lines.len());
            let width: usize = text[lines[l].clone()].chars().map(|c| c.len_utf16()).sum();
            labels.push("column-overshoot");
            Pos { line: l as u32, character: (width + 1 + s.below(4)) as u32 }
        }
        _ => {
            // an expressible offset
            let cands: Vec<usize> = (0..=text.len()).filter(|o| lsp::expressible(text, *o)).collect();
            let o = cands[s.below(cands.len())];
            lsp::pos_of(text, o)
        }
    }
}

#[derive(Clone, Debug)]
pub enum Note {
    /// one didChange notification
    Changes(Vec<Change>),
    /// didClose followed by a didOpen of the same URI with this text
    Reopen(String),
}

pub struct Case {
    pub initial: String,
    pub notes: Vec<Note>,
    pub labels: Vec<&'static str>,
}

pub fn decode(bytes: &[u8]) -> Case {
    let mut s = Src::new(bytes);
    // one document in ten is 1-4 KiB long (about 40 bytes per line, line ends of all three kinds)
    let initial = if s.chance(1, 10) {
        let lines = 25 + s.below(80);
        let mut t = String::new();
        for _ in 0..lines {
            t.push_str(&gen_text(&mut s, 4));
            let k = s.below(38);
            t.extend("proc main() { x := 1; } // ä€😀 filler".chars().take(k));
            t.push_str(*s.pick(&["\n", "\r\n", "\r\n", "\r", "\n"]));
        }
        t
    } else {
        gen_text(&mut s, 30)
    };
    let mut text = initial.clone();
    let mut labels = Vec::new();
    let n = 1 + s.below(6);
    let mut notes = Vec::new();
    for _ in 0..n {
        if s.chance(1, 8) {
            labels.push("close-and-reopen");
            text = gen_text(&mut s, 12);
            notes.push(Note::Reopen(text.clone()));
            continue;
        }
        // 1-3 content changes; one notification in sixteen carries an empty list (allowed by the type)
        let k = if s.chance(1, 16) { 0 } else { 1 + s.below(3) };
        let mut changes = Vec::new();
        for _ in 0..k {
            let ins = gen_text(&mut s, 6);
            let change = if s.chance(1, 10) {
                labels.push("full-replacement");
                Change { range: None, text: ins }
            } else {
                let a = gen_pos(&mut s, &text, &mut labels);
                let b = match s.below(5) {
                    0 => a,
                    1 => {
                        labels.push("to-end-of-document");
                        Pos { line: lsp::line_count(&text) as u32 + 1, character: 0 }
                    }
                    _ => gen_pos(&mut s, &text, &mut labels),
                };
                // LSP ranges are ordered
                let (oa, ob) = (lsp::offset_of(&text, a), lsp::offset_of(&text, b));
                let (a, b) = if oa < ob || (oa == ob && a <= b) { (a, b) } else { (b, a) };
                Change { range: Some((a, b)), text: ins }
            };
            lsp::apply(&mut text, &change);
            changes.push(change);
        }
        if k > 1 {
            labels.push("batch");
        }
        notes.push(Note::Changes(changes));
    }
    Case { initial, notes, labels }
}

fn describe_case(c: &Case) -> Value {
    json!({
        "initial": c.initial,
        "notifications": c.notes.iter().map(|n| match n {
            Note::Changes(n) => json!(n.iter().map(|ch| json!({
                "range": ch.range.map(|(a, b)| json!([[a.line, a.character], [b.line, b.character]])),
                "text": ch.text,
            })).collect::<Vec<_>>()),
            Note::Reopen(t) => json!({ "close_and_reopen": t }),
        }).collect::<Vec<_>>(),
    })
}

/// apply one note to the client model and to the in-process server
fn step(srv: &mut Srv, u: &Url, client: &mut String, note: &Note) {
    match note {
        Note::Changes(note) => {
            for ch in note {
                lsp::apply(client, ch);
            }
            srv.change(u, note.iter().map(|ch| srv::change_event(ch.range, &ch.text)).collect());
        }
        Note::Reopen(t) => {
            srv.close(u);
            srv.open(u, t);
            *client = t.clone();
        }
    }
}

pub struct Sync;

impl Check for Sync {
    fn part(&self) -> &'static str {
        "didchange-histories"
    }
    fn max_len(&self) -> usize {
        900
    }
    fn run(&self, bytes: &[u8]) -> CaseResult {
        let case = decode(bytes);
        let mut r = CaseResult::new(fnv(format!("{:?}", describe_case(&case)).as_bytes()));
        if case.initial.len() >= 1024 {
            r.label("document-of-1-KiB-or-more");
        }
        for l in &case.labels {
            r.label(*l);
        }
        let u = srv::default_uri();
        let mut srv = Srv::new(false);
        srv.open(&u, &case.initial);
        let mut client = case.initial.clone();
        r.evals = 0;
        for (k, note) in case.notes.iter().enumerate() {
            r.evals += 1;
            step(&mut srv, &u, &mut client, note);
            if let Err(sig) = srv.settle() {
                r.fail(sig, format!("the document broker dies on notification {}", k + 1), describe_case(&case));
                break;
            }
            match srv.info(&u) {
                None => {
                    r.fail("document-lost", format!("the server no longer knows the document after notification {}", k + 1), describe_case(&case));
                    break;
                }
                Some(doc) => {
                    if doc.text != client {
                        r.fail(
                            "text-diverges",
                            format!("after notification {} the server holds {:?}, the client {:?}", k + 1, doc.text, client),
                            describe_case(&case),
                        );
                        break;
                    }
                }
            }
        }
        r.evals = r.evals.max(1);
        let all = format!("{}{}", case.initial, client);
        r.nontrivial = all.chars().any(|c| c.len_utf16() > 1 || c == '\r') || case.labels.iter().any(|l| l.contains("overshoot"));
        if all.chars().any(|c| c.len_utf16() > 1) {
            r.label("astral-character");
        }
        if all.contains('\r') {
            r.label("carriage-return");
        }
        r
    }
    fn describe(&self, bytes: &[u8]) -> Value {
        describe_case(&decode(bytes))
    }
}

/// Round trip: a range the server reports for an identifier slices exactly that identifier out of
/// the client's text, and sent back as a position yields the same range.
pub struct RoundTrip;

fn decode_rt(bytes: &[u8]) -> String {
    let mut s = Src::new(bytes);
    // identifiers between multi-unit characters, on lines with different terminators
    let n = 1 + s.below(12);
    let mut t = String::new();
    for _ in 0..n {
        t.push_str(*s.pick(&["abc", "x", "main", "q1", "é", "😀", " ", " ", "\n", "\r\n", "// 😀 c\n", "'€'", ";", "\t", "proc ", "(", ")"]));
        t.push_str(*s.pick(&["", " ", " ", "\n"]));
    }
    t
}

impl Check for RoundTrip {
    fn part(&self) -> &'static str {
        "range-round-trip"
    }
    fn max_len(&self) -> usize {
        200
    }
    fn run(&self, bytes: &[u8]) -> CaseResult {
        let text = decode_rt(bytes);
        let mut r = CaseResult::new(fnv(text.as_bytes()));
        let u = srv::default_uri();
        let mut srv = Srv::new(false);
        srv.open(&u, &text);
        let idents: Vec<_> = reflex::lex(&text).into_iter().filter(|t| matches!(&t.kind, RKind::Ident(n) if n != "int")).collect();
        r.evals = 0;
        for t in idents.iter().take(6) {
            r.evals += 1;
            let pos = lsp::pos_of(&text, t.range.start);
            let doctx = srv.doctx.clone();
            let res = catch(|| srv::block_on(features::references::prepare_rename(doctx, srv::tdp(&u, pos))));
            let got = match res {
                Err(sig) => {
                    r.fail(sig, "prepareRename panics", json!({ "text": text }));
                    break;
                }
                Ok(Err(e)) => {
                    r.fail("handler-error", format!("prepareRename fails: {}", e), json!({ "text": text }));
                    break;
                }
                Ok(Ok(g)) => g,
            };
            let Some(range) = got else {
                r.fail(
                    "identifier-not-addressed",
                    format!("prepareRename at the start of identifier {:?} (client position {:?}) finds no identifier", &text[t.range.clone()], pos),
                    json!({ "text": text }),
                );
                break;
            };
            let a = lsp::offset_of(&text, srv::from_lsp(range.start));
            let b = lsp::offset_of(&text, srv::from_lsp(range.end));
            if (a..b) != t.range {
                r.fail(
                    "range-addresses-other-text",
                    format!("the reported range {:?} addresses {:?} in the client's text, the identifier is {:?}", range, text.get(a..b), &text[t.range.clone()]),
                    json!({ "text": text }),
                );
                break;
            }
            // and back
            let doctx = srv.doctx.clone();
            let again = catch(|| srv::block_on(features::references::prepare_rename(doctx, srv::tdp(&u, srv::from_lsp(range.start)))));
            if !matches!(again, Ok(Ok(Some(r2))) if r2 == range) {
                r.fail("round-trip-unstable", "the reported range, sent back as a position, does not yield the same range", json!({ "text": text }));
                break;
            }
        }
        r.evals = r.evals.max(1);
        r.nontrivial = !idents.is_empty() && text.chars().any(|c| c.len_utf16() > 1 || c == '\r');
        r
    }
    fn describe(&self, bytes: &[u8]) -> Value {
        json!({ "text": decode_rt(bytes) })
    }
}

/// Explicit cases (regression corpus, exhaustive small space): the bytes are UTF-8 JSON
/// `{"initial": "...", "notifications": [[{"range": [[l,c],[l,c]] | null, "text": "..."}]]}`.
pub struct Explicit;

fn decode_explicit(bytes: &[u8]) -> Option<Case> {
    let v: Value = serde_json::from_slice(bytes).ok()?;
    let initial = v["initial"].as_str()?.to_string();
    let mut notes = Vec::new();
    for n in v["notifications"].as_array()? {
        if let Some(t) = n.get("close_and_reopen").and_then(|t| t.as_str()) {
            notes.push(Note::Reopen(t.to_string()));
            continue;
        }
        let mut changes = Vec::new();
        for c in n.as_array()? {
            let range = if c["range"].is_null() {
                None
            } else {
                let p = |x: &Value| Some(Pos { line: x[0].as_u64()? as u32, character: x[1].as_u64()? as u32 });
                Some((p(&c["range"][0])?, p(&c["range"][1])?))
            };
            changes.push(Change { range, text: c["text"].as_str()?.to_string() });
        }
        notes.push(Note::Changes(changes));
    }
    Some(Case { initial, notes, labels: vec![] })
}

impl Check for Explicit {
    fn part(&self) -> &'static str {
        "explicit-sync"
    }
    fn max_len(&self) -> usize {
        0
    }
    fn run(&self, bytes: &[u8]) -> CaseResult {
        let mut r = CaseResult::new(fnv(bytes));
        let Some(case) = decode_explicit(bytes) else {
            r.excluded.push("undecodable".into());
            return r;
        };
        let u = srv::default_uri();
        let mut srv = Srv::new(false);
        srv.open(&u, &case.initial);
        let mut client = case.initial.clone();
        for (k, note) in case.notes.iter().enumerate() {
            step(&mut srv, &u, &mut client, note);
            if let Err(sig) = srv.settle() {
                r.fail(sig, format!("the document broker dies on notification {}", k + 1), describe_case(&case));
                return r;
            }
            let got = srv.info(&u).map(|d| d.text);
            if got.as_deref() != Some(client.as_str()) {
                r.fail("text-diverges", format!("after notification {} the server holds {:?}, the client {:?}", k + 1, got, client), describe_case(&case));
                return r;
            }
        }
        r.nontrivial = true;
        r
    }
    fn describe(&self, bytes: &[u8]) -> Value {
        decode_explicit(bytes).map_or(json!("undecodable"), |c| describe_case(&c))
    }
}

/// all texts up to `max` symbols over {a, 😀, LF, CR} x all ordered position pairs (lines 0..=n,
/// columns 0..=width+1) x three replacement texts
pub fn enumerate(max: usize) -> Vec<Vec<u8>> {
    let alphabet = ["a", "😀", "\n", "\r"];
    let mut texts = vec![String::new()];
    let mut frontier = vec![String::new()];
    for _ in 0..max {
        let mut next = Vec::new();
        for f in &frontier {
            for a in alphabet {
                next.push(format!("{}{}", f, a));
            }
        }
        texts.extend(next.iter().cloned());
        frontier = next;
    }
    let mut out = Vec::new();
    for t in &texts {
        let lines = lsp::lines(t);
        let mut positions = Vec::new();
        for l in 0..=lines.len() {
            let width: usize = lines.get(l).map_or(0, |r| t[r.clone()].chars().map(|c| c.len_utf16()).sum());
            for c in 0..=width + 1 {
                let p = Pos { line: l as u32, character: c as u32 };
                // skip columns inside a surrogate pair
                let o = lsp::offset_of(t, p);
                if l < lines.len() && c <= width && lsp::pos_of(t, o) != p {
                    continue;
                }
                positions.push(p);
            }
        }
        for a in &positions {
            for b in &positions {
                if lsp::offset_of(t, *a) > lsp::offset_of(t, *b) || (a > b) {
                    continue;
                }
                for ins in ["", "x", "\n"] {
                    let v = json!({ "initial": t, "notifications": [[{ "range": [[a.line, a.character], [b.line, b.character]], "text": ins }]] });
                    out.push(serde_json::to_vec(&v).unwrap());
                }
            }
        }
    }
    out
}

pub fn checks() -> Vec<Box<dyn Check>> {
    vec![Box::new(Sync), Box::new(RoundTrip), Box::new(Explicit), Box::new(super::c08b::BinarySync)]
}

pub fn run(ctx: &Ctx) -> i32 {
    let mut parts = vec![crate::corpus_part(ctx, &checks())];
    parts.push(run_list(ctx, &Explicit, "exhaustive-small-texts-all-positions", &enumerate(if ctx.thorough() { 4 } else { 3 }), true));
    parts.push(run_pbt(ctx, &Sync, ctx.n(40_000, 600_000)));
    parts.push(run_pbt(ctx, &RoundTrip, ctx.n(20_000, 300_000)));
    parts.extend(crate::props::c08b::engine_b_parts(ctx));
    finish(
        ctx,
        parts,
        "initial texts over an alphabet with ASCII, 2-, 3- and 4-byte characters, LF, CRLF, lone CR, empty lines, and U+2028/U+2029/U+0085/VT/FF (not line ends under LSP); 1-6 notifications, each a didChange with 1-3 (rarely 0) content changes or (1 in 8) a didClose followed by a didOpen of the same URI with a new text; ranges from the client model: valid positions, columns past the end of a line, lines past the end of the text, empty ranges, to-end-of-document, range-less full replacements; after every notification the server's text must equal the client model's; round trip of identifier ranges (prepareRename) through the client model; non-trivial = the texts contain a multi-unit character or a CR, or a position overshoots; distinct = distinct (initial, notifications)",
        &[
            "positions inside a surrogate pair or between CR and LF are never generated (LSP leaves them open)",
            "ranges are ordered (start <= end under the client model), as LSP requires",
        ],
        json!({}),
    )
}

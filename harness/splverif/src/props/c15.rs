//! C15 Semantic tokens are well-formed and agree with lexical class and binding kind.

use crate::driver::*;
use crate::features;
use crate::srv::{self, Srv};
use lsp_types::*;
use serde_json::{json, Value};
use splgen::layout::{gen_layout, lay, Laid, Style};
use splgen::lsp::{self, Pos};
use splgen::prog::*;
use splgen::reflex::{self, RKind, RTok};
use splgen::render::{render, Rendered, Role};
use splgen::src::{fnv, Src};
use splgen::text;

#[derive(Clone, Debug, PartialEq, Eq)]
pub struct Decoded {
    pub pos: Pos,
    pub length: u32,
    pub kind: String,
    pub declaration: bool,
}

fn request(text: &str) -> Result<Option<SemanticTokens>, (String, String)> {
    let u = srv::default_uri();
    let mut srv = Srv::new(false);
    srv.open(&u, text);
    let params = SemanticTokensParams {
        text_document: TextDocumentIdentifier { uri: u.clone() },
        work_done_progress_params: Default::default(),
        partial_result_params: Default::default(),
    };
    let doctx = srv.doctx.clone();
    catch(|| srv::block_on(features::semantic_tokens(doctx, params)))
        .map_err(|sig| (sig, "the semantic tokens handler panics".to_string()))?
        .map_err(|e| ("handler-error".to_string(), format!("the semantic tokens handler fails: {}", e)))
}

/// decode the delta encoding against the legend the server announces
pub fn decode_tokens(data: &[SemanticToken], types: &[String], modifiers: &[String]) -> Result<Vec<Decoded>, String> {
    let mut out = Vec::new();
    let mut line = 0u32;
    let mut col = 0u32;
    for (i, t) in data.iter().enumerate() {
        if t.delta_line > 1 << 24 || t.delta_start > 1 << 24 {
            return Err(format!("token {}: absurd delta ({}, {}) (negative distance wrapped around)", i, t.delta_line, t.delta_start));
        }
        if t.delta_line > 0 {
            line += t.delta_line;
            col = t.delta_start;
        } else {
            col += t.delta_start;
        }
        let kind = types.get(t.token_type as usize).cloned().ok_or_else(|| format!("token {}: type index {} outside the legend", i, t.token_type))?;
        if t.token_modifiers_bitset >> modifiers.len() != 0 {
            return Err(format!("token {}: modifier bits {:b} outside the legend", i, t.token_modifiers_bitset));
        }
        let declaration = modifiers.iter().position(|m| m == "declaration").map_or(false, |b| t.token_modifiers_bitset & (1 << b) != 0);
        out.push(Decoded { pos: Pos { line, character: col }, length: t.length, kind, declaration });
    }
    Ok(out)
}

pub fn legend() -> (Vec<String>, Vec<String>) {
    (
        features::semantic_tokens::TOKEN_TYPES.iter().map(|t| t.as_str().to_string()).collect(),
        features::semantic_tokens::TOKEN_MODIFIERS.iter().map(|t| t.as_str().to_string()).collect(),
    )
}

fn utf16_len(s: &str) -> u32 {
    s.chars().map(|c| c.len_utf16() as u32).sum()
}

/// well-formedness: strictly increasing, non-overlapping, each token coincides with one lexical
/// token; keywords, numbers and comments carry their lexical class. Returns the matched lexical
/// token for every semantic token.
pub fn well_formed<'a>(text: &str, toks: &[Decoded], lexed: &'a [RTok]) -> Result<Vec<&'a RTok>, String> {
    let mut matched = Vec::new();
    let mut prev_end: Option<(u32, u32)> = None;
    for (i, t) in toks.iter().enumerate() {
        if let Some((l, c)) = prev_end {
            if (t.pos.line, t.pos.character) < (l, c) {
                return Err(format!("token {} at {:?} starts before the end {:?} of its predecessor (not increasing / overlapping)", i, t.pos, (l, c)));
            }
        }
        let off = lsp::offset_of(text, t.pos);
        if lsp::pos_of(text, off) != t.pos {
            return Err(format!("token {} at {:?} is not a position of the document", i, t.pos));
        }
        let Some(lt) = lexed.iter().find(|l| l.range.start == off && l.kind != RKind::Eof) else {
            return Err(format!("token {} at {:?} (byte {}) does not start at a lexical token", i, t.pos, off));
        };
        // a carriage return in front of the line feed belongs to the line terminator
        let want = if lt.is_comment() { utf16_len(text[lt.range.clone()].trim_end_matches('\r')) } else { utf16_len(&text[lt.range.clone()]) };
        if t.length != want {
            return Err(format!("token {} at {:?} has length {}, the lexical token {:?} is {} UTF-16 units long", i, t.pos, t.length, &text[lt.range.clone()], want));
        }
        let class = match &lt.kind {
            RKind::Kw(_) => Some("keyword"),
            RKind::Int(_) | RKind::Hex(_) | RKind::Char(..) => Some("number"),
            RKind::Comment(_) => Some("comment"),
            _ => None,
        };
        if let Some(c) = class {
            if t.kind != c {
                return Err(format!("token {} {:?} is lexically a {} but is reported as {}", i, &text[lt.range.clone()], c, t.kind));
            }
        } else if !matches!(lt.kind, RKind::Ident(_)) {
            return Err(format!("token {} {:?} is neither keyword, number, comment nor identifier but is reported as {}", i, &text[lt.range.clone()], t.kind));
        }
        prev_end = Some((t.pos.line, t.pos.character + t.length));
        matched.push(lt);
    }
    Ok(matched)
}

pub struct AnyDocument;

fn decode_any(bytes: &[u8]) -> (String, String) {
    let mut s = Src::new(bytes);
    let (st, t) = text::gen_document(&mut s, &GenCfg { max_decls: 5, budget: 100, ..GenCfg::default() });
    (st.name().to_string(), t)
}

impl Check for AnyDocument {
    fn part(&self) -> &'static str {
        "well-formed-on-any-document"
    }
    fn max_len(&self) -> usize {
        2000
    }
    fn run(&self, bytes: &[u8]) -> CaseResult {
        let (stratum, text) = decode_any(bytes);
        let mut r = CaseResult::new(fnv(text.as_bytes()));
        r.label(format!("stratum:{}", stratum));
        let (types, mods) = legend();
        match request(&text) {
            Err((sig, what)) => r.fail(sig, what, json!({ "text": text })),
            Ok(None) => r.fail("no-answer", "semantic tokens request answered with null for an open document", json!({ "text": text })),
            Ok(Some(st)) => match decode_tokens(&st.data, &types, &mods) {
                Err(e) => r.fail("malformed-stream", e, json!({ "text": text })),
                Ok(toks) => {
                    let lexed = reflex::lex(&text);
                    if let Err(e) = well_formed(&text, &toks, &lexed) {
                        r.fail("malformed-tokens", e, json!({ "text": text }));
                    }
                    r.nontrivial = toks.len() >= 3 && (stratum != "valid" || text.contains("//"));
                }
            },
        }
        r
    }
    fn describe(&self, bytes: &[u8]) -> Value {
        let (stratum, text) = decode_any(bytes);
        json!({ "stratum": stratum, "text": text })
    }
}

pub struct Classification;

fn decode_prog(bytes: &[u8]) -> (Prog, Rendered, Laid) {
    let mut s = Src::new(bytes);
    let prog = gen_prog(&mut s, &GenCfg::default());
    let r = render(&prog);
    let style = *s.pick(&[Style::Commented, Style::Spaced, Style::Plain, Style::LeadingComments]);
    let l = gen_layout(&r.toks, &mut s, style);
    let laid = lay(&r.toks, &l);
    (prog, r, laid)
}

/// a global-scope occurrence (type name in a parameter type, the procedure's own name) whose
/// name is also a parameter or local of the enclosing procedure
pub fn shadowed_global_occurrence(prog: &Prog, tok: &splgen::render::Tok) -> bool {
    let Some(p) = tok.proc else { return false };
    let is_global = matches!(tok.role, Role::Use(Bind::Type(_)) | Role::Use(Bind::BuiltinInt) | Role::Use(Bind::Proc(_)) | Role::Use(Bind::BuiltinProc(_)) | Role::Decl(Bind::Proc(_)));
    is_global && prog.procs[p].params.iter().chain(prog.procs[p].locals.iter()).any(|v| v.name == tok.text)
}

/// every identifier, keyword, number and comment is reported, with the kind of its binding
pub fn check_classification(prog: &Prog, rendered: &Rendered, laid: &Laid, toks: &[Decoded], r: &mut CaseResult) {
    let text = &laid.text;
    // computed lazily: does the recorded baseline report exactly the same tokens for this document?
    let baseline_same = std::cell::OnceCell::new();
    let as_baseline = || {
        *baseline_same.get_or_init(|| {
            let u = srv::default_uri();
            let Ok(v) = crate::pinned_lsp::answer("textDocument/semanticTokens/full", &u, text, json!({ "textDocument": { "uri": u.as_str() } })) else { return false };
            let Some(data) = v["data"].as_array() else { return false };
            let nums: Vec<u32> = data.iter().filter_map(|x| x.as_u64().map(|x| x as u32)).collect();
            let st: Vec<SemanticToken> = nums.chunks_exact(5).map(|c| SemanticToken { delta_line: c[0], delta_start: c[1], length: c[2], token_type: c[3], token_modifiers_bitset: c[4] }).collect();
            let (types, mods) = legend();
            decode_tokens(&st, &types, &mods).map_or(false, |b| b.as_slice() == toks)
        })
    };
        // every identifier, keyword, number and comment is reported, with the kind of its binding
        let by_offset: std::collections::HashMap<usize, &Decoded> = toks.iter().map(|t| (lsp::offset_of(text, t.pos), t)).collect();
        for (i, tok) in rendered.toks.iter().enumerate() {
            let off = laid.ranges[i].start;
            let got = by_offset.get(&off);
            let (want_kind, want_decl): (&str, bool) = match &tok.role {
                Role::Other => match tok.class {
                    splgen::render::TokClass::Keyword => ("keyword", false),
                    splgen::render::TokClass::Number => ("number", false),
                    _ => continue,
                },
                Role::Decl(b) | Role::Use(b) => {
                    let k = match b {
                        Bind::Type(_) | Bind::BuiltinInt => "type",
                        Bind::Proc(_) | Bind::BuiltinProc(_) => "function",
                        Bind::Param(..) => "parameter",
                        Bind::Local(..) => "variable",
                        Bind::Unbound => continue,
                    };
                    (k, matches!(tok.role, Role::Decl(_)))
                }
            };
            let shadowed = shadowed_global_occurrence(prog, tok);
            let ok = matches!(got, Some(g) if g.kind == want_kind && g.declaration == want_decl);
            if !ok {
                let what = format!(
                    "`{}` at byte {} ({:?}) should be {}{}, reported {:?}",
                    tok.text,
                    off,
                    tok.role,
                    want_kind,
                    if want_decl { " + declaration" } else { "" },
                    got.map(|g| (g.kind.clone(), g.declaration))
                );
                if shadowed {
                    let got_kind = got.map_or("none".to_string(), |g| format!("{}{}", g.kind, if g.declaration { "+declaration" } else { "" }));
                    r.fail(crate::pinned_lsp::triage(format!("shadowed-global-occurrence|want:{}{}|got:{}", want_kind, if want_decl { "+declaration" } else { "" }, got_kind), as_baseline()), what, json!({ "text": text }));
                } else {
                    r.fail(format!("misclassified|{}{}", want_kind, if want_decl { "+declaration" } else { "" }), what, json!({ "text": text }));
                }
            } else if shadowed {
                r.label("shadowed-global-occurrence-correct");
            }
        }
        // comments
        // (comments behind the last token belong to no declaration: whether they must be reported
        // is not stated, so they are not demanded)
        let n_gaps = laid.gap_comments.len();
        for gc in laid.gap_comments.iter().take(n_gaps - 1).flatten() {
            if !matches!(by_offset.get(&gc.1.start), Some(g) if g.kind == "comment") {
                r.fail("comment-not-reported", format!("the comment at byte {} is not reported as comment", gc.1.start), json!({ "text": text }));
            }
        }
}

impl Check for Classification {
    fn part(&self) -> &'static str {
        "classification-of-valid-programs"
    }
    fn max_len(&self) -> usize {
        2500
    }
    fn run(&self, bytes: &[u8]) -> CaseResult {
        let (prog, rendered, laid) = decode_prog(bytes);
        let text = &laid.text;
        let mut r = CaseResult::new(fnv(text.as_bytes()));
        let (types, mods) = legend();
        let toks = match request(text) {
            Err((sig, what)) => {
                r.fail(sig, what, json!({ "text": text }));
                return r;
            }
            Ok(None) => {
                r.fail("no-answer", "semantic tokens request answered with null for an open document", json!({ "text": text }));
                return r;
            }
            Ok(Some(st)) => match decode_tokens(&st.data, &types, &mods) {
                Ok(t) => t,
                Err(e) => {
                    r.fail("malformed-stream", e, json!({ "text": text }));
                    return r;
                }
            },
        };
        let lexed = reflex::lex(text);
        if let Err(e) = well_formed(text, &toks, &lexed) {
            r.fail("malformed-tokens", e, json!({ "text": text }));
            return r;
        }
        check_classification(&prog, &rendered, &laid, &toks, &mut r);
        let multi_line = text.lines().count() > 1;
        r.nontrivial = prog.order.len() >= 2 && (laid.n_comments > 0 || multi_line);
        r
    }
    fn describe(&self, bytes: &[u8]) -> Value {
        json!({ "text": decode_prog(bytes).2.text })
    }
}

/// Engine B: the stream the real binary sends, decoded against the legend announced in ITS answer
/// to `initialize` (the client announces varying semantic token capabilities), on valid programs
/// (classification) and on blank / punctuation-only / arbitrary documents (well-formedness).
pub struct AnnouncedLegend;

const STANDARD_TYPES: [&str; 23] = [
    "namespace", "type", "class", "enum", "interface", "struct", "typeParameter", "parameter", "variable", "property", "enumMember", "event", "function", "method", "macro", "keyword", "modifier", "comment", "string", "number", "regexp", "operator", "decorator",
];
const STANDARD_MODIFIERS: [&str; 10] = ["declaration", "definition", "readonly", "static", "deprecated", "abstract", "async", "modification", "documentation", "defaultLibrary"];

struct LegendCase {
    caps: Value,
    caps_label: &'static str,
    text: String,
    valid: Option<(Prog, Rendered, Laid)>,
}

fn decode_legend_case(bytes: &[u8]) -> LegendCase {
    let mut s = Src::new(bytes);
    let (caps, caps_label) = match s.below(4) {
        0 => (json!({}), "no-semantic-token-capabilities"),
        1 => (json!({ "textDocument": { "semanticTokens": { "requests": { "full": true }, "tokenTypes": STANDARD_TYPES, "tokenModifiers": STANDARD_MODIFIERS, "formats": ["relative"] } } }), "all-standard-types"),
        _ => {
            let types: Vec<&str> = STANDARD_TYPES.iter().filter(|_| s.chance(1, 2)).cloned().collect();
            let mods: Vec<&str> = STANDARD_MODIFIERS.iter().filter(|_| s.chance(1, 2)).cloned().collect();
            (json!({ "textDocument": { "semanticTokens": { "requests": { "full": true }, "tokenTypes": types, "tokenModifiers": mods, "formats": ["relative"] } } }), "subset-of-standard-types")
        }
    };
    if s.chance(1, 5) {
        let text = match s.below(3) {
            0 => s.pick(&["", "\n", "  ", "\n\n  \t", "\r\n", ";", "();", "{ } ( ) ;", ":= < >", "\n;\n"]).to_string(),
            _ => text::gen_document(&mut s, &GenCfg { max_decls: 4, budget: 80, ..GenCfg::default() }).1,
        };
        return LegendCase { caps, caps_label, text, valid: None };
    }
    let prog = gen_prog(&mut s, &GenCfg { max_decls: 6, budget: 120, ..GenCfg::default() });
    let r = render(&prog);
    let style = *s.pick(&[Style::Commented, Style::Spaced, Style::Plain, Style::LeadingComments]);
    let l = gen_layout(&r.toks, &mut s, style);
    let laid = lay(&r.toks, &l);
    LegendCase { caps, caps_label, text: laid.text.clone(), valid: Some((prog, r, laid)) }
}

impl Check for AnnouncedLegend {
    fn part(&self) -> &'static str {
        "binary-stream-against-announced-legend"
    }
    fn max_len(&self) -> usize {
        2000
    }
    fn shrink_iters(&self) -> u32 {
        300
    }
    fn run(&self, bytes: &[u8]) -> CaseResult {
        use crate::session::{self, RunOpts};
        let case = decode_legend_case(bytes);
        let mut r = CaseResult::new(fnv(case.text.as_bytes()) ^ fnv(case.caps.to_string().as_bytes()));
        r.label(case.caps_label);
        let uri = "file:///w/c15.spl";
        let msgs = vec![
            session::request(1, "initialize", json!({ "capabilities": case.caps })),
            session::notification("initialized", json!({})),
            session::notification("textDocument/didOpen", json!({ "textDocument": { "uri": uri, "languageId": "spl", "version": 1, "text": case.text } })),
            session::request(2, "textDocument/semanticTokens/full", json!({ "textDocument": { "uri": uri } })),
            session::request(3, "shutdown", Value::Null),
            session::notification("exit", Value::Null),
        ];
        let chunks = session::one_chunk(&msgs);
        let opts = RunOpts { close_stdin: true, timeout_ms: super::c18::WATCHDOG_MS, read_delay_ms: 0 };
        let mut o = session::run(&chunks, &opts);
        let mut tries = 1;
        while o.timed_out && tries < 3 {
            o = session::run(&chunks, &opts);
            tries += 1;
        }
        let detail = |extra: Value| json!({ "text": case.text, "client_capabilities": case.caps, "extra": extra, "stderr": o.stderr.chars().take(300).collect::<String>() });
        if o.timed_out {
            r.fail("watchdog", "the server does not terminate (3 attempts)", detail(json!(null)));
            return r;
        }
        let responses = o.responses();
        let find = |id: i64| responses.iter().find(|x| x["id"].as_i64() == Some(id)).cloned();
        let (Some(init), Some(resp)) = (find(1), find(2)) else {
            r.fail("no-response", format!("initialize or the semantic tokens request got no response (exit status {:?})", o.exit_code), detail(json!(null)));
            return r;
        };
        let legend = &init["result"]["capabilities"]["semanticTokensProvider"]["legend"];
        let strings = |v: &Value| v.as_array().map(|a| a.iter().filter_map(|x| x.as_str().map(|x| x.to_string())).collect::<Vec<_>>());
        let (Some(types), Some(mods)) = (strings(&legend["tokenTypes"]), strings(&legend["tokenModifiers"])) else {
            r.fail("no-legend", "the initialize response announces no semantic tokens legend", detail(json!({ "initialize": init.to_string().chars().take(600).collect::<String>() })));
            return r;
        };
        let Some(data) = resp["result"]["data"].as_array() else {
            r.fail(
                "malformed-result",
                format!("the result of semanticTokens/full has no `data` array (SemanticTokens.data is required): {}", resp.to_string().chars().take(200).collect::<String>()),
                detail(json!(null)),
            );
            return r;
        };
        let nums: Vec<u32> = data.iter().filter_map(|x| x.as_u64().map(|x| x as u32)).collect();
        if nums.len() != data.len() || nums.len() % 5 != 0 {
            r.fail("malformed-stream", format!("`data` has {} entries, {} of them unsigned integers (must be a multiple of 5)", data.len(), nums.len()), detail(json!(null)));
            return r;
        }
        let st: Vec<SemanticToken> = nums.chunks(5).map(|c| SemanticToken { delta_line: c[0], delta_start: c[1], length: c[2], token_type: c[3], token_modifiers_bitset: c[4] }).collect();
        let toks = match decode_tokens(&st, &types, &mods) {
            Ok(t) => t,
            Err(e) => {
                r.fail("malformed-stream", format!("{} (legend announced to this client: {:?} / {:?})", e, types, mods), detail(json!(null)));
                return r;
            }
        };
        let lexed = reflex::lex(&case.text);
        if let Err(e) = well_formed(&case.text, &toks, &lexed) {
            r.fail("malformed-tokens", format!("{} (legend announced to this client: {:?})", e, types), detail(json!(null)));
            return r;
        }
        if let Some((prog, rendered, laid)) = &case.valid {
            check_classification(prog, rendered, laid, &toks, &mut r);
        }
        r.nontrivial = case.caps_label == "subset-of-standard-types" || toks.is_empty();
        if toks.is_empty() {
            r.label("no-token-classified");
        }
        r
    }
    fn describe(&self, bytes: &[u8]) -> Value {
        let c = decode_legend_case(bytes);
        json!({ "text": c.text, "client_capabilities": c.caps })
    }
}

pub const E2E: super::e2e::EndToEnd = super::e2e::EndToEnd { part: "end-to-end-binary-vs-handler", methods: &["textDocument/semanticTokens/full"] };

pub fn checks() -> Vec<Box<dyn Check>> {
    vec![Box::new(AnyDocument), Box::new(Classification), Box::new(E2E), Box::new(AnnouncedLegend)]
}

pub fn run(ctx: &Ctx) -> i32 {
    let mut parts = vec![
        crate::corpus_part(ctx, &checks()),
        run_pbt(ctx, &AnyDocument, ctx.n(20_000, 300_000)),
        run_pbt(ctx, &Classification, ctx.n(20_000, 300_000)),
    ];
    parts.push(run_pbt(ctx, &E2E, ctx.n(400, 8_000)));
    parts.push(run_pbt(ctx, &AnnouncedLegend, ctx.n(1_200, 30_000)));
    finish(
        ctx,
        parts,
        "part 1: any document (valid, damaged, token soup, Unicode, empty): the delta-encoded stream decodes against the announced legend to strictly increasing, non-overlapping tokens, each starting at and as long (UTF-16 units) as one lexical token of an independent lexer; keywords, numbers, comments carry their lexical class; part 2: well-typed programs in any layout: every keyword, number, comment and identifier is reported, identifiers with the kind of the entity they are bound to by construction (type / function / parameter / variable) and the declaration modifier exactly on declaring occurrences; part 3 (real binary): clients announcing no / all standard / a random subset of semantic token types and modifiers; the `data` of the response (required member, multiple of 5 unsigned integers) is decoded against the legend of the server's own initialize response and must pass parts 1 and 2; a fifth of the documents are blank, punctuation-only or arbitrary; non-trivial = >= 3 tokens in a broken or commented document (part 1), >= 2 declarations with comments or several lines (part 2); distinct = distinct text",
        &[
            "a comment's length is that of `//` plus its text, without the line terminator",
            "global-scope occurrences (type names in parameter types, the procedure's own name) whose name is also a local of the enclosing procedure are a separately signed class (shadowed-global-occurrence)",
        ],
        json!({}),
    )
}

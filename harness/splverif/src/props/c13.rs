//! C13 Find-references and rename cover exactly the occurrences of one binding.

use super::nav::{self, World};
use crate::driver::*;
use crate::srv::{self, Srv};
use lsp_types::*;
use serde_json::{json, Value};
use spl_frontend::{AnalyzedSource, ErrorContainer};
use splgen::layout::Style;
use splgen::lsp::{self, Pos};
use splgen::prog::*;
use splgen::src::{fnv, Src};
use std::collections::BTreeSet;
use std::ops::Range as StdRange;

const STYLES: [Style; 4] = [Style::Commented, Style::Spaced, Style::LeadingComments, Style::Plain];

fn world(bytes: &[u8]) -> (World, Src<'_>) {
    let mut s = Src::new(bytes);
    let cfg = GenCfg { max_decls: 6, budget: 200, max_depth: 5, predef_shadow_16: 1, ..GenCfg::default() };
    let w = nav::build_world(&mut s, &cfg, &STYLES);
    (w, s)
}

fn user_declared(b: Bind) -> bool {
    matches!(b, Bind::Type(_) | Bind::Proc(_) | Bind::Param(..) | Bind::Local(..))
}

fn diagnostics(text: &str) -> Result<Vec<String>, String> {
    let t = text.to_string();
    catch(move || {
        let mut v: Vec<String> = AnalyzedSource::new(t).errors().iter().map(|e| e.1.to_string().trim().to_string()).collect();
        v.sort();
        v
    })
}

/// apply the edits of one document (client model), last position first
fn apply_edits(text: &str, edits: &[TextEdit]) -> Option<String> {
    let mut spans: Vec<(StdRange<usize>, &str)> = edits
        .iter()
        .map(|e| (lsp::offset_of(text, srv::from_lsp(e.range.start))..lsp::offset_of(text, srv::from_lsp(e.range.end)), e.new_text.as_str()))
        .collect();
    spans.sort_by_key(|(r, _)| r.start);
    for w in spans.windows(2) {
        if w[0].0.end > w[1].0.start {
            return None;
        }
    }
    let mut out = text.to_string();
    for (r, t) in spans.iter().rev() {
        out.replace_range(r.clone(), t);
    }
    Some(out)
}

pub struct Refs;

impl Check for Refs {
    fn part(&self) -> &'static str {
        "references-rename"
    }
    fn max_len(&self) -> usize {
        3000
    }
    fn run(&self, bytes: &[u8]) -> CaseResult {
        let (w, mut s) = world(bytes);
        let text = w.text().to_string();
        let mut r = CaseResult::new(fnv(text.as_bytes()));
        r.evals = 0;
        let idents = w.ident_tokens(&mut s, 10);
        let mut nontrivial = false;
        for &i in &idents {
            let b = w.bind_of(i).unwrap();
            if b == Bind::Unbound {
                continue;
            }
            let ambiguous = w.ambiguous_name(i);
            let offs = w.cursor_offsets(i);
            let p = w.pos_at(offs[s.below(offs.len())]);
            let detail = |extra: Value| json!({ "text": text, "token": w.tok(i).text, "token_index": i, "role": format!("{:?}", w.tok(i).role), "cursor": [p.line, p.character], "extra": extra });
            let sign = |sig: String| if ambiguous { format!("name-denotes-global-and-local|{}|{}", sig, super::c12::role_class(&w, i)) } else { sig };
            let occ: Vec<usize> = w.occurrences.get(&b).cloned().unwrap_or_default();
            let want_all: BTreeSet<(usize, usize)> = occ.iter().map(|j| (w.laid.ranges[*j].start, w.laid.ranges[*j].end)).collect();
            let mut want_others = want_all.clone();
            want_others.remove(&(w.laid.ranges[i].start, w.laid.ranges[i].end));
            if occ.len() >= 3 {
                nontrivial = true;
            }
            // ---- references
            r.evals += 1;
            match nav::references(&w, p) {
                Err((sig, what)) => r.fail(format!("{}|references", sig), what, detail(json!(null))),
                Ok(locs) => {
                    let raw = serde_json::to_value(&locs).unwrap_or(Value::Null);
                    let locs = locs.unwrap_or_default();
                    let got: Vec<(usize, usize)> = locs.iter().map(|l| { let b = w.bytes_of(&l.range); (b.start, b.end) }).collect();
                    let got_set: BTreeSet<(usize, usize)> = got.iter().cloned().collect();
                    if got_set != want_others || got.len() != got_set.len() || locs.iter().any(|l| l.uri != w.uri) {
                        let missing: Vec<_> = want_others.difference(&got_set).map(|(a, b)| (*a, text[*a..*b].to_string())).collect();
                        let extra: Vec<_> = got_set.difference(&want_others).map(|(a, b)| (*a, text.get(*a..*b).unwrap_or("?").to_string())).collect();
                        let mut sig = sign("wrong-references".into());
                        if ambiguous {
                            let m = "textDocument/references";
                            sig = crate::pinned_lsp::triage(sig, crate::pinned_lsp::baseline_agrees_on(m, &w.uri, &text, crate::pinned_lsp::position_params(m, &w.uri, p.line, p.character), &raw, crate::pinned_lsp::ranges_of));
                        }
                        r.fail(
                            sig,
                            format!("find-references on `{}` ({:?}): missing {:?}, not belonging {:?}, {} duplicates", w.tok(i).text, w.tok(i).role, missing, extra, got.len() - got_set.len()),
                            detail(json!(null)),
                        );
                    }
                }
            }
            // ---- prepare rename / rename
            r.evals += 2;
            let fresh = format!("zq9_{}", i);
            let prep = nav::prepare_rename(&w, p);
            let ren = nav::rename(&w, p, &fresh);
            let (prep, ren) = match (prep, ren) {
                (Ok(a), Ok(b)) => (a, b),
                (Err((sig, what)), _) => {
                    r.fail(format!("{}|prepare-rename", sig), what, detail(json!(null)));
                    continue;
                }
                (_, Err((sig, what))) => {
                    r.fail(format!("{}|rename", sig), what, detail(json!(null)));
                    continue;
                }
            };
            if prep.is_some() != ren.is_some() {
                r.fail("prepare-rename-disagrees", format!("prepareRename {} a range but rename {} edits on `{}`", if prep.is_some() { "returns" } else { "returns no" }, if ren.is_some() { "returns" } else { "returns no" }, w.tok(i).text), detail(json!(null)));
            }
            if let Some(range) = &prep {
                if w.bytes_of(range) != w.laid.ranges[i] {
                    r.fail("prepare-rename-range", format!("prepareRename returns {:?}, the identifier is at {:?}", w.bytes_of(range), w.laid.ranges[i]), detail(json!(null)));
                }
            }
            if b == Bind::BuiltinInt && (prep.is_some() || ren.is_some()) {
                r.fail("rename-offered-for-int", "rename is offered for the predefined type int", detail(json!(null)));
            }
            if !user_declared(b) {
                continue;
            }
            // renaming the procedure `main` necessarily makes `main` missing: outside the statement
            if matches!(b, Bind::Proc(j) if w.prog.procs[j].name == "main") {
                r.excluded.push("rename-of-main-procedure".into());
                continue;
            }
            let raw_rename = serde_json::to_value(&ren).unwrap_or(Value::Null);
            let Some(we) = ren else {
                r.fail(sign("rename-not-offered".into()), format!("rename is not offered on `{}` ({:?})", w.tok(i).text, w.tok(i).role), detail(json!(null)));
                continue;
            };
            let changes = we.changes.unwrap_or_default();
            if we.document_changes.is_some() || changes.len() != 1 || !changes.contains_key(&w.uri) {
                r.fail("rename-touches-other-documents", "the workspace edit does not consist of edits to this document only", detail(json!(null)));
                continue;
            }
            let edits = &changes[&w.uri];
            let got: Vec<(usize, usize)> = edits.iter().map(|e| { let b = w.bytes_of(&e.range); (b.start, b.end) }).collect();
            let got_set: BTreeSet<(usize, usize)> = got.iter().cloned().collect();
            if got_set != want_all || got.len() != got_set.len() || edits.iter().any(|e| e.new_text != fresh) {
                let missing: Vec<_> = want_all.difference(&got_set).map(|(a, b)| (*a, text[*a..*b].to_string())).collect();
                let extra: Vec<_> = got_set.difference(&want_all).map(|(a, b)| (*a, text.get(*a..*b).unwrap_or("?").to_string())).collect();
                let mut sig = sign("wrong-rename-edits".into());
                if ambiguous {
                    let params = json!({ "textDocument": { "uri": w.uri.as_str() }, "position": { "line": p.line, "character": p.character }, "newName": fresh });
                    sig = crate::pinned_lsp::triage(sig, crate::pinned_lsp::baseline_agrees_on("textDocument/rename", &w.uri, &text, params, &raw_rename, crate::pinned_lsp::ranges_of));
                }
                r.fail(
                    sig,
                    format!("rename of `{}` ({:?}): occurrences not edited {:?}, edits elsewhere {:?}, {} duplicates", w.tok(i).text, w.tok(i).role, missing, extra, got.len() - got_set.len()),
                    detail(json!(null)),
                );
                continue;
            }
            // ---- metamorphic: apply, same diagnostics, same partition, rename back
            let Some(renamed) = apply_edits(&text, edits) else {
                r.fail("overlapping-rename-edits", "rename edits overlap", detail(json!(null)));
                continue;
            };
            r.evals += 2;
            match (diagnostics(&text), diagnostics(&renamed)) {
                (Ok(a), Ok(b2)) => {
                    if a != b2 {
                        r.fail(sign("rename-changes-diagnostics".into()), format!("diagnostics before {:?}, after renaming `{}` to a fresh name {:?}", a, w.tok(i).text, b2), detail(json!({ "renamed": renamed })));
                        continue;
                    }
                }
                (Err(sig), _) | (_, Err(sig)) => {
                    r.fail(sig, "analysis panics", detail(json!({ "renamed": renamed })));
                    continue;
                }
            }
            // position of occurrence i in the renamed text
            let delta = fresh.len() as isize - w.tok(i).text.len() as isize;
            let before = occ.iter().filter(|j| w.laid.ranges[**j].start < w.laid.ranges[i].start).count() as isize;
            let new_off = (w.laid.ranges[i].start as isize + before * delta) as usize;
            let u = w.uri.clone();
            let mut srv2 = Srv::new(false);
            srv2.open(&u, &renamed);
            let p2 = lsp::pos_of(&renamed, new_off);
            let doctx = srv2.doctx.clone();
            let back = nav::call("rename", || {
                srv::block_on(crate::features::references::rename(
                    doctx,
                    RenameParams { text_document_position: srv::tdp(&u, p2), new_name: w.tok(i).text.clone(), work_done_progress_params: Default::default() },
                ))
            });
            match back {
                Ok(Some(we2)) => {
                    let e2 = we2.changes.unwrap_or_default().remove(&u).unwrap_or_default();
                    let restored = {
                        let mut spans: Vec<(StdRange<usize>, String)> = e2
                            .iter()
                            .map(|e| (lsp::offset_of(&renamed, srv::from_lsp(e.range.start))..lsp::offset_of(&renamed, srv::from_lsp(e.range.end)), e.new_text.clone()))
                            .collect();
                        spans.sort_by_key(|(r0, _)| r0.start);
                        let mut out = renamed.clone();
                        for (r0, t) in spans.iter().rev() {
                            if r0.end <= out.len() && out.is_char_boundary(r0.start) && out.is_char_boundary(r0.end) {
                                out.replace_range(r0.clone(), t);
                            }
                        }
                        out
                    };
                    if restored != text {
                        r.fail(sign("rename-back-does-not-restore".into()), format!("renaming `{}` to a fresh name and back does not restore the original text", w.tok(i).text), detail(json!({ "renamed": renamed, "restored": restored })));
                    }
                }
                Ok(None) => r.fail(sign("rename-back-not-offered".into()), "after renaming, rename is no longer offered on the same occurrence", detail(json!({ "renamed": renamed }))),
                Err((sig, what)) => r.fail(format!("{}|rename", sig), what, detail(json!({ "renamed": renamed }))),
            }
            if r.failures.iter().any(|f| !f.sig.starts_with("name-denotes-global-and-local")) {
                break;
            }
        }
        r.evals = r.evals.max(1);
        r.nontrivial = nontrivial;
        r
    }
    fn describe(&self, bytes: &[u8]) -> Value {
        json!({ "text": world(bytes).0.text() })
    }
}

/// keywords, symbols, literals, comments, whitespace: neither prepareRename nor rename nor references
pub struct Elsewhere;

impl Check for Elsewhere {
    fn part(&self) -> &'static str {
        "rename-elsewhere"
    }
    fn max_len(&self) -> usize {
        2500
    }
    fn run(&self, bytes: &[u8]) -> CaseResult {
        let (w, mut s) = world(bytes);
        let mut r = CaseResult::new(fnv(w.text().as_bytes()) ^ 0x77);
        r.evals = 0;
        let others: Vec<usize> = (0..w.rendered.toks.len()).filter(|i| w.bind_of(*i).is_none()).collect();
        let mut positions: Vec<Pos> = Vec::new();
        for _ in 0..5 {
            if !others.is_empty() {
                positions.push(w.pos_at(w.laid.ranges[others[s.below(others.len())]].start));
            }
        }
        for gc in w.laid.gap_comments.iter().flatten().take(2) {
            positions.push(w.pos_at(gc.1.start + 1));
        }
        positions.push(Pos { line: lsp::line_count(w.text()) as u32 + 1, character: 0 });
        for p in positions {
            r.evals += 2;
            let prep = nav::prepare_rename(&w, p);
            let ren = nav::rename(&w, p, "zz");
            match (prep, ren) {
                (Ok(None), Ok(None)) => {}
                (Ok(a), Ok(b)) => r.fail("rename-offered-on-non-identifier", format!("at {:?} prepareRename = {:?}, rename offered = {}", p, a, b.is_some()), json!({ "text": w.text(), "cursor": [p.line, p.character] })),
                (Err((sig, what)), _) | (_, Err((sig, what))) => r.fail(sig, what, json!({ "text": w.text(), "cursor": [p.line, p.character] })),
            }
        }
        r.evals = r.evals.max(1);
        r.nontrivial = true;
        r
    }
    fn describe(&self, bytes: &[u8]) -> Value {
        json!({ "text": world(bytes).0.text() })
    }
}

pub const E2E: super::e2e::EndToEnd = super::e2e::EndToEnd { part: "end-to-end-binary-vs-handler", methods: &["textDocument/references", "textDocument/rename", "textDocument/prepareRename"] };

pub fn checks() -> Vec<Box<dyn Check>> {
    vec![Box::new(Refs), Box::new(Elsewhere), Box::new(E2E)]
}

pub fn run(ctx: &Ctx) -> i32 {
    let mut parts = vec![
        crate::corpus_part(ctx, &checks()),
        run_pbt(ctx, &Refs, ctx.n(8_000, 150_000)),
        run_pbt(ctx, &Elsewhere, ctx.n(3_000, 50_000)),
    ];
    parts.push(run_pbt(ctx, &E2E, ctx.n(400, 8_000)));
    finish(
        ctx,
        parts,
        "well-typed programs (variables used inside parenthesised, negated and index expressions, arguments, conditions; the same names re-used in different procedures; locals shadowing globals; comments in front of identifiers); up to 10 identifier occurrences per program: references must equal the set of the other occurrences of the same binding (known by construction), rename must edit exactly all occurrences incl. the declaration with the new name; metamorphic: the renamed program (edits applied with the client model) has the same diagnostics, and renaming back at the same occurrence restores the original text (which also shows that the same occurrences are bound together again); prepareRename returns the identifier's range iff rename is offered; non-identifier positions get neither; non-trivial = a binding with >= 3 occurrences; evaluations = requests; distinct = distinct text",
        &[
            "for predefined procedures only references and the prepareRename/rename agreement are checked (renaming a predefined entity cannot preserve the diagnostics; the statement does not say whether it must be refused)",
            "occurrences whose spelling is both a parameter/local of the enclosing procedure and a global entity form the recorded class name-denotes-global-and-local",
        ],
        json!({}),
    )
}

//! C19 Message framing is independent of how the byte stream is chunked.

use super::c18::{supported_params, SUPPORTED, WATCHDOG_MS};
use crate::driver::*;
use crate::session::{self, Chunk, Outcome, RunOpts};
use serde_json::{json, Value};
use splgen::src::{fnv, Src};
use std::collections::BTreeMap;

const TEXTS: [&str; 6] = [
    "proc main() {\n  printi(1);\n}\n",
    "// größer als € 😀\nproc main() {\n  var x: int;\n  x := 'é';\n}\n",
    "type vec = array [3] of int;\n// コメント\nproc main() { var v: vec; v[0] := 1; }\n",
    "proc 😀() {}\n",
    "",
    "// ä\r\nproc main() {}\r\n",
];

pub fn gen_session(s: &mut Src) -> Vec<Value> {
    let mut msgs = Vec::new();
    let mut id = 1;
    msgs.push(session::request(id, "initialize", session::initialize_params(true)));
    msgs.push(session::notification("initialized", json!({})));
    let n = 2 + s.below(6);
    let uris = ["file:///w/a.spl", "file:///w/ü.spl"];
    for _ in 0..n {
        let uri = uris[s.below(2)];
        match s.below(6) {
            0 | 1 => {
                let mut text = TEXTS[s.below(TEXTS.len())].to_string();
                // long bodies: 4- and 5-digit lengths
                match s.below(6) {
                    0 => text.push_str(&"// padding ä\n".repeat(90)),
                    1 => text.push_str(&"// long padding line with € signs €€€\n".repeat(300)),
                    _ => {}
                }
                msgs.push(session::notification("textDocument/didOpen", json!({ "textDocument": { "uri": uri, "languageId": "spl", "version": 1, "text": text } })));
            }
            2 => msgs.push(session::notification(
                "textDocument/didChange",
                json!({ "textDocument": { "uri": uri, "version": 2 }, "contentChanges": [{ "range": { "start": { "line": 0, "character": 0 }, "end": { "line": 0, "character": s.below(3) } }, "text": *s.pick(&["", "ö", "😀", "// x\n"]) }] }),
            )),
            3 => msgs.push(session::notification("exotic/ü", json!({ "k": "€" }))),
            _ => {
                id += 1;
                let m = SUPPORTED[s.below(SUPPORTED.len())];
                msgs.push(session::request(id, m, supported_params(m, uri, s.below(4) as u32, s.below(8) as u32)));
            }
        }
    }
    id += 1;
    msgs.push(session::request(id, "shutdown", Value::Null));
    msgs.push(session::notification("exit", Value::Null));
    msgs
}

/// what must not depend on the segmentation: responses in order, diagnostics per URI in order
#[derive(Debug, PartialEq)]
pub struct Observed {
    pub responses: Vec<Value>,
    pub diagnostics: BTreeMap<String, Vec<Value>>,
    pub exit_code: Option<i32>,
}

/// Completion items come out of a hash map: their order differs from process to process and is
/// not part of any property. Arrays of labelled items are compared as multisets.
pub fn canonical(v: &Value) -> Value {
    match v {
        Value::Array(a) => {
            let mut items: Vec<Value> = a.iter().map(canonical).collect();
            if !items.is_empty() && items.iter().all(|i| i.get("label").is_some()) {
                items.sort_by_key(|i| i.to_string());
            }
            Value::Array(items)
        }
        Value::Object(m) => Value::Object(m.iter().map(|(k, v)| (k.clone(), canonical(v))).collect()),
        other => other.clone(),
    }
}

pub fn observe(o: &Outcome) -> Observed {
    let mut diagnostics: BTreeMap<String, Vec<Value>> = BTreeMap::new();
    for n in o.notifications("textDocument/publishDiagnostics") {
        diagnostics.entry(n["params"]["uri"].as_str().unwrap_or("").to_string()).or_default().push(n["params"]["diagnostics"].clone());
    }
    Observed { responses: o.responses().into_iter().map(canonical).collect(), diagnostics, exit_code: o.exit_code }
}

/// Content-Length of every emitted frame equals the byte length of its JSON body
pub fn emitted_frames_problem(o: &Outcome) -> Option<String> {
    o.framing_problem.clone()
}

pub enum Segmentation {
    TwoWay(usize),
    Bytewise,
    Random(Vec<(usize, u64)>),
    PerMessageBundles(usize),
}

pub fn segment(stream: &[u8], seg: &Segmentation, frames: &[Vec<u8>]) -> Vec<Chunk> {
    match seg {
        Segmentation::TwoWay(k) => vec![Chunk { bytes: stream[..*k].to_vec(), sleep_before_ms: 0 }, Chunk { bytes: stream[*k..].to_vec(), sleep_before_ms: 1 }],
        Segmentation::Bytewise => stream.iter().map(|b| Chunk { bytes: vec![*b], sleep_before_ms: 0 }).collect(),
        Segmentation::Random(cuts) => {
            let mut out = Vec::new();
            let mut at = 0;
            for (c, sleep) in cuts {
                let c = (*c).min(stream.len());
                if c > at {
                    out.push(Chunk { bytes: stream[at..c].to_vec(), sleep_before_ms: *sleep });
                    at = c;
                }
            }
            if at < stream.len() {
                out.push(Chunk { bytes: stream[at..].to_vec(), sleep_before_ms: 0 });
            }
            out
        }
        Segmentation::PerMessageBundles(k) => frames.chunks((*k).max(1)).map(|g| Chunk { bytes: g.concat(), sleep_before_ms: 0 }).collect(),
    }
}

fn run_with_retry(chunks: &[Chunk]) -> Outcome {
    let mut o = session::run(chunks, &RunOpts { close_stdin: true, timeout_ms: WATCHDOG_MS, read_delay_ms: 0 });
    let mut tries = 1;
    while o.timed_out && tries < 3 {
        o = session::run(chunks, &RunOpts { close_stdin: true, timeout_ms: WATCHDOG_MS, read_delay_ms: 0 });
        tries += 1;
    }
    o
}

/// every third message or so carries an additional Content-Type header (before or after
/// Content-Length), chosen by a hash of the message so that all runs of a case agree
pub fn framed(m: &Value) -> Vec<u8> {
    match fnv(m.to_string().as_bytes()) % 5 {
        0 => session::frame_with_content_type(m, true),
        1 => session::frame_with_content_type(m, false),
        _ => session::frame(m),
    }
}

pub fn check_segmentation(msgs: &[Value], seg: &Segmentation, r: &mut CaseResult, label: &str) {
    let frames: Vec<Vec<u8>> = msgs.iter().map(framed).collect();
    let stream: Vec<u8> = frames.concat();
    let reference = run_with_retry(&[Chunk { bytes: stream.clone(), sleep_before_ms: 0 }]);
    let chunks = segment(&stream, seg, &frames);
    let got = run_with_retry(&chunks);
    let detail = |extra: Value| json!({ "messages": msgs.iter().map(|m| format!("{} {}", m["method"].as_str().unwrap_or(""), m.get("id").map_or(String::new(), |i| i.to_string()))).collect::<Vec<_>>(), "segmentation": label, "stream_len": stream.len(), "extra": extra });
    if reference.timed_out || got.timed_out {
        r.fail("watchdog", "the server does not terminate (3 attempts)", detail(json!({ "reference_timed_out": reference.timed_out, "segmented_timed_out": got.timed_out })));
        return;
    }
    for (name, o) in [("unsegmented", &reference), ("segmented", &got)] {
        if let Some(p) = emitted_frames_problem(o) {
            r.fail("emitted-frame-malformed", format!("{} run: {}", name, p), detail(json!(null)));
            return;
        }
    }
    let a = observe(&reference);
    let b = observe(&got);
    if a != b {
        let what = if a.responses != b.responses {
            format!("responses differ: {} vs {} responses; ids {:?} vs {:?}", a.responses.len(), b.responses.len(), a.responses.iter().map(|r| r["id"].clone()).collect::<Vec<_>>(), b.responses.iter().map(|r| r["id"].clone()).collect::<Vec<_>>())
        } else if a.exit_code != b.exit_code {
            format!("exit status {:?} vs {:?}", a.exit_code, b.exit_code)
        } else {
            "published diagnostics differ".to_string()
        };
        r.fail("segmentation-changes-behaviour", format!("the same byte stream, written {}, is answered differently: {}", label, what), detail(json!({ "stderr": got.stderr.chars().take(300).collect::<String>() })));
    }
    // the unsegmented run itself must have answered every request
    let n_requests = msgs.iter().filter(|m| m.get("id").is_some()).count();
    if a.responses.len() != n_requests {
        r.fail("request-unanswered", format!("{} requests, {} responses in the unsegmented run", n_requests, a.responses.len()), detail(json!({ "stderr": reference.stderr.chars().take(300).collect::<String>() })));
    }
}

/// [session bytes.., hi, lo] : two-way split at a byte position given by the trailing bytes
pub struct TwoWay;

fn decode_twoway(bytes: &[u8]) -> (Vec<Value>, usize) {
    let (sb, tail) = bytes.split_at(bytes.len().saturating_sub(3));
    let mut s = Src::new(sb);
    let msgs = gen_session(&mut s);
    let len: usize = msgs.iter().map(|m| framed(m).len()).sum();
    let sel = tail.iter().fold(0usize, |a, b| (a << 8) | *b as usize);
    let k = if tail.len() == 3 { sel.min(len) } else { 0 };
    (msgs, k)
}

impl Check for TwoWay {
    fn part(&self) -> &'static str {
        "two-way-splits"
    }
    fn max_len(&self) -> usize {
        80
    }
    fn run(&self, bytes: &[u8]) -> CaseResult {
        let (msgs, k) = decode_twoway(bytes);
        let mut r = CaseResult::new(fnv(bytes));
        check_segmentation(&msgs, &Segmentation::TwoWay(k), &mut r, &format!("in two writes split after byte {}", k));
        r.nontrivial = true;
        r
    }
    fn describe(&self, bytes: &[u8]) -> Value {
        let (msgs, k) = decode_twoway(bytes);
        json!({ "split_after_byte": k, "messages": msgs.iter().map(|m| m["method"].clone()).collect::<Vec<_>>() })
    }
}

pub struct RandomSegments;

fn decode_random(bytes: &[u8]) -> (Vec<Value>, Segmentation, String) {
    let mut s = Src::new(bytes);
    let msgs = gen_session(&mut s);
    let len: usize = msgs.iter().map(|m| framed(m).len()).sum();
    match s.below(8) {
        0 => (msgs, Segmentation::Bytewise, "one byte per write".into()),
        1 => {
            let k = 2 + s.below(4);
            (msgs, Segmentation::PerMessageBundles(k), format!("{} messages per write", k))
        }
        _ => {
            let n = 2 + s.below(12);
            let mut cuts: Vec<(usize, u64)> = (0..n).map(|_| (s.below(len + 1), s.below(3) as u64)).collect();
            cuts.sort();
            let label = format!("in {} writes cut at {:?} (with sleeps)", cuts.len() + 1, cuts.iter().map(|c| c.0).collect::<Vec<_>>());
            (msgs, Segmentation::Random(cuts), label)
        }
    }
}

impl Check for RandomSegments {
    fn part(&self) -> &'static str {
        "multi-way-segmentations"
    }
    fn max_len(&self) -> usize {
        120
    }
    fn run(&self, bytes: &[u8]) -> CaseResult {
        let (msgs, seg, label) = decode_random(bytes);
        let mut r = CaseResult::new(fnv(bytes));
        r.label(match seg {
            Segmentation::Bytewise => "bytewise",
            Segmentation::PerMessageBundles(_) => "several-messages-per-write",
            _ => "random-cuts-with-sleeps",
        });
        check_segmentation(&msgs, &seg, &mut r, &label);
        r.nontrivial = true;
        r
    }
    fn describe(&self, bytes: &[u8]) -> Value {
        let (msgs, _, label) = decode_random(bytes);
        json!({ "segmentation": label, "messages": msgs.iter().map(|m| m["method"].clone()).collect::<Vec<_>>() })
    }
}

/// all two-way splits of `n` seed-derived sessions (streams longer than `max_stream` are skipped)
pub fn enumerate(ctx: &Ctx, n: usize, max_stream: usize) -> Vec<Vec<u8>> {
    let mut out = Vec::new();
    let mut state = fnv(format!("c19-{}", ctx.seed).as_bytes());
    let mut k = 0;
    let mut tries = 0;
    while k < n && tries < n * 30 {
        tries += 1;
        let mut sb = Vec::with_capacity(40);
        for _ in 0..40 {
            state = state.wrapping_mul(6364136223846793005).wrapping_add(1442695040888963407);
            sb.push((state >> 33) as u8);
        }
        let mut s = Src::new(&sb);
        let msgs = gen_session(&mut s);
        let len: usize = msgs.iter().map(|m| framed(m).len()).sum();
        if len > max_stream {
            continue;
        }
        k += 1;
        for cut in 0..=len {
            let mut v = sb.clone();
            v.extend([(cut >> 16) as u8, (cut >> 8) as u8, cut as u8]);
            out.push(v);
        }
    }
    out
}

pub fn checks() -> Vec<Box<dyn Check>> {
    vec![Box::new(TwoWay), Box::new(RandomSegments)]
}

pub fn run(ctx: &Ctx) -> i32 {
    let splits = enumerate(ctx, if ctx.thorough() { 60 } else { 4 }, if ctx.thorough() { 6000 } else { 2500 });
    let parts = vec![
        crate::corpus_part(ctx, &checks()),
        run_list(ctx, &TwoWay, "all-two-way-splits-of-sample-sessions", &splits, false),
        run_pbt(ctx, &RandomSegments, ctx.n(1_200, 30_000)),
    ];
    finish(
        ctx,
        parts,
        "sessions (initialize with diagnostics capability, initialized, 2-7 of didOpen with non-ASCII texts and bodies of 2- to 5-digit length / didChange / supported requests / unknown notifications with non-ASCII payload, shutdown, exit; two fifths of the frames carry an additional Content-Type header before or after Content-Length) against the real binary; every two-way split position of 4 (thorough: 60) seed-derived sessions, and random segmentations: one byte per write, several messages per write, 2-13 random cuts with 0-2 ms sleeps; metamorphic oracle: responses (in order, full JSON), published diagnostics per URI (in order) and exit status equal those of the same stream written in one piece; every emitted frame parses strictly (Content-Length = byte length of a valid UTF-8 JSON body); every request of the unsegmented run is answered; all cases are non-trivial; distinct = distinct (session, segmentation); each evaluation is two runs of the server",
        &["responses and diagnostics notifications are produced by different tasks: their relative interleaving is not compared", "watchdog 20 s, three attempts"],
        json!({}),
    )
}

//! C10 Formatting never loses or duplicates a comment.

use super::c09::gen_opts;
use super::fmt::{self, Opts};
use crate::driver::*;
use serde_json::{json, Value};
use splgen::layout::{lay, layout_with_comments};
use splgen::prog::*;
use splgen::reflex;
use splgen::render::{render, Tok};
use splgen::src::{fnv, Src};

pub struct Case {
    pub text: String,
    pub opts: Opts,
    /// (comment text after `//`, site of its gap)
    pub comments: Vec<(String, String)>,
}

pub fn site_of_gap(toks: &[Tok], g: usize) -> String {
    if g < toks.len() {
        toks[g].site.clone()
    } else {
        "eof".to_string()
    }
}

fn build(s: &mut Src, prog: &Prog, gaps: &[usize]) -> Case {
    let r = render(prog);
    let mut placed = Vec::new();
    let mut comments = Vec::new();
    for (k, g) in gaps.iter().enumerate() {
        let g = (*g).min(r.toks.len());
        // texts are distinct by their number; one in eight is far wider than a usual line, some
        // carry characters that matter to lexers and position arithmetic
        let text = match (k + s.below(8)) % 8 {
            0 | 1 => format!(" c{}", k + 1),
            2 | 3 => format!("c{} with words", k + 1),
            4 => format!(" c{} {}", k + 1, "wide comment text ".repeat(7 + s.below(6))),
            5 => format!(" c{} // nested ä€😀 \u{2028} '", k + 1),
            6 => format!("/ c{} {{ }} ; proc", k + 1),
            _ => format!("  c{}\t", k + 1),
        };
        placed.push((g, text.clone()));
        comments.push((text, site_of_gap(&r.toks, g)));
    }
    // comments must appear in text order
    let mut order: Vec<usize> = (0..placed.len()).collect();
    order.sort_by_key(|i| placed[*i].0);
    let placed: Vec<_> = order.iter().map(|i| placed[*i].clone()).collect();
    let comments: Vec<_> = order.iter().map(|i| comments[*i].clone()).collect();
    let l = layout_with_comments(&r.toks, s, &placed);
    let text = lay(&r.toks, &l).text;
    let opts = gen_opts(s);
    Case { text, opts, comments }
}

pub fn decode(bytes: &[u8]) -> Case {
    let mut s = Src::new(bytes);
    let cfg = GenCfg { max_decls: 5, budget: 120, ..GenCfg::default() };
    let prog = gen_prog(&mut s, &cfg);
    let n = render(&prog).toks.len();
    let k = if s.chance(1, 3) { 2 + s.below(4) } else { 1 };
    let gaps: Vec<usize> = (0..k).map(|_| s.below(n + 1)).collect();
    build(&mut s, &prog, &gaps)
}

pub fn check(case: &Case, r: &mut CaseResult) {
    let detail = |out: &str| json!({ "text": case.text, "options": format!("{:?}", case.opts), "formatted": out, "comment_sites": case.comments });
    let f = match fmt::format(&case.text, case.opts) {
        Ok(f) => f,
        Err((sig, what)) => {
            r.fail(sig, what, detail(""));
            return;
        }
    };
    let out = fmt::apply(&case.text, &f);
    // computed lazily: does the recorded baseline format this document to the same text?
    let baseline_same = std::cell::OnceCell::new();
    let as_baseline = || {
        *baseline_same.get_or_init(|| {
            let u = crate::srv::default_uri();
            match crate::pinned_lsp::answer("textDocument/formatting", &u, &case.text, crate::pinned_lsp::formatting_params(&u, case.opts.tab_size, case.opts.insert_spaces)) {
                // the part of the answer the property speaks about: the comments of the result
                Ok(Value::Null) => reflex::comments(&out) == reflex::comments(&case.text),
                Ok(v) => v.as_array().map_or(false, |a| a.len() == 1 && a[0]["newText"].as_str().map_or(false, |t| reflex::comments(t) == reflex::comments(&out))),
                Err(_) => false,
            }
        })
    };
    let before = reflex::comments(&case.text);
    let after = reflex::comments(&out);
    let mut all_once = true;
    for (c, site) in &case.comments {
        let want = c.trim();
        let n = after.iter().filter(|a| a.as_str() == want).count();
        if n == 0 {
            all_once = false;
            r.fail(crate::pinned_lsp::triage(format!("lost|{}", site), as_baseline()), format!("the comment `//{}` written at site {} is missing from the formatted document", c, site), detail(&out));
        } else if n > 1 {
            all_once = false;
            r.fail(format!("duplicated|{}", site), format!("the comment `//{}` written at site {} appears {} times in the formatted document", c, site, n), detail(&out));
        } else {
            r.label(format!("kept:{}", site));
        }
    }
    if after.iter().any(|a| !before.contains(a)) {
        r.fail("invented-comment", format!("the formatted document contains a comment the source does not: {:?} vs {:?}", after, before), detail(&out));
    }
    if all_once && after != before {
        r.fail("reordered", format!("comments changed their relative order: {:?} -> {:?}", before, after), detail(&out));
    }
}

pub struct Comments;

impl Check for Comments {
    fn part(&self) -> &'static str {
        "comments-in-random-gaps"
    }
    fn max_len(&self) -> usize {
        2500
    }
    fn run(&self, bytes: &[u8]) -> CaseResult {
        let case = decode(bytes);
        let mut r = CaseResult::new(fnv(case.text.as_bytes()));
        r.evals = case.comments.len() as u64;
        check(&case, &mut r);
        r.nontrivial = case.comments.iter().any(|(_, s)| !s.ends_with(":first"));
        r.label(if case.comments.len() == 1 { "one-comment" } else { "several-comments" });
        r
    }
    fn describe(&self, bytes: &[u8]) -> Value {
        let c = decode(bytes);
        json!({ "text": c.text, "options": format!("{:?}", c.opts), "comment_sites": c.comments })
    }
}

/// Every gap of a program, one comment at a time: [program bytes.., hi(gap), lo(gap)]
pub struct EveryGap;

fn decode_gap(bytes: &[u8]) -> Option<Case> {
    if bytes.len() < 2 {
        return None;
    }
    let (pb, tail) = bytes.split_at(bytes.len() - 2);
    let mut s = Src::new(pb);
    let cfg = GenCfg { max_decls: 4, budget: 80, ..GenCfg::default() };
    let prog = gen_prog(&mut s, &cfg);
    let g = ((tail[0] as usize) << 8) | tail[1] as usize;
    Some(build(&mut s, &prog, &[g]))
}

impl Check for EveryGap {
    fn part(&self) -> &'static str {
        "every-gap-of-sample-programs"
    }
    fn max_len(&self) -> usize {
        2000
    }
    fn run(&self, bytes: &[u8]) -> CaseResult {
        let mut r = CaseResult::new(fnv(bytes));
        match decode_gap(bytes) {
            None => r.excluded.push("undecodable".into()),
            Some(case) => {
                r.key = fnv(case.text.as_bytes());
                check(&case, &mut r);
                r.nontrivial = true;
            }
        }
        r
    }
    fn describe(&self, bytes: &[u8]) -> Value {
        decode_gap(bytes).map_or(json!("undecodable"), |c| json!({ "text": c.text, "comment_sites": c.comments }))
    }
}

pub fn enumerate(ctx: &Ctx, n_programs: usize) -> Vec<Vec<u8>> {
    let mut out = Vec::new();
    let mut state = fnv(format!("c10-{}", ctx.seed).as_bytes());
    for _ in 0..n_programs {
        let mut pb = Vec::with_capacity(250);
        for _ in 0..250 {
            state = state.wrapping_mul(6364136223846793005).wrapping_add(1442695040888963407);
            pb.push((state >> 33) as u8);
        }
        let mut s = Src::new(&pb);
        let cfg = GenCfg { max_decls: 4, budget: 80, ..GenCfg::default() };
        let prog = gen_prog(&mut s, &cfg);
        let n = render(&prog).toks.len();
        for g in 0..=n {
            let mut v = pb.clone();
            v.extend([(g >> 8) as u8, (g & 255) as u8]);
            out.push(v);
        }
    }
    out
}

pub fn checks() -> Vec<Box<dyn Check>> {
    vec![Box::new(Comments), Box::new(EveryGap)]
}

pub fn run(ctx: &Ctx) -> i32 {
    let parts = vec![
        crate::corpus_part(ctx, &checks()),
        run_list(ctx, &EveryGap, "every-gap-of-sample-programs", &enumerate(ctx, if ctx.thorough() { 600 } else { 40 }), false),
        run_pbt(ctx, &Comments, ctx.n(30_000, 400_000)),
    ];
    finish(
        ctx,
        parts,
        "syntactically valid generated programs with comments placed by construction: one comment in one gap (every gap of 40 (600) seed-derived programs, plus random), or 2-5 comments in random gaps, incl. before the first and after the last token, distinct texts; the formatted document (edit applied with the client model, re-lexed with the independent lexer) must contain every source comment exactly once, in order, and no other; non-trivial = a comment in a non-leading gap; distinct = distinct text; evaluations = comments",
        &[
            "comment texts are compared trimmed (the formatter normalises `//x` to `// x`)",
            "a failing comment is identified by the syntactic site of its gap (owner construct and slot); sites at which the unchanged tree always loses the comment are the recorded findings, any other site or any duplication is a violation",
        ],
        json!({}),
    )
}

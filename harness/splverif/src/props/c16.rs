//! C16 Completion proposals respect scope and syntactic position.

use super::nav;
use crate::driver::*;
use crate::srv::{self, Srv};
use lsp_types::*;
use serde_json::{json, Value};
use splgen::layout::{gen_layout, lay, Style};
use splgen::lsp;
use splgen::prog::*;
use splgen::reflex;
use splgen::render::{render, Tok};
use splgen::src::{fnv, Src};
use std::collections::BTreeMap;

#[derive(Clone, Copy, Debug, PartialEq, Eq)]
pub enum Class {
    TopLevel,
    StatementStart,
    BranchStart,
    ListEnd,
    AfterAssign,
    AfterLParen,
    ParamType,
    VarType,
    TypeDeclType,
    ArrayBaseType,
}

impl Class {
    fn name(&self) -> &'static str {
        match self {
            Class::TopLevel => "top-level-gap",
            Class::StatementStart => "statement-start",
            Class::BranchStart => "branch-statement-start",
            Class::ListEnd => "end-of-statement-list",
            Class::AfterAssign => "after-assign",
            Class::AfterLParen => "after-lparen-in-statement",
            Class::ParamType => "parameter-type",
            Class::VarType => "variable-type",
            Class::TypeDeclType => "type-declaration-type",
            Class::ArrayBaseType => "array-base-type",
        }
    }
}

/// classify the gap in front of token g (None: not a position the statement speaks about)
fn classify(toks: &[Tok], g: usize) -> Option<Class> {
    if g >= toks.len() {
        return Some(Class::TopLevel);
    }
    let t = &toks[g];
    let prev = if g > 0 { Some(&toks[g - 1]) } else { None };
    if t.site.starts_with("top.decl>") {
        return Some(Class::TopLevel);
    }
    if t.stmt_start {
        if t.site.starts_with("proc.body>") || t.site.starts_with("block.item>") {
            return Some(Class::StatementStart);
        }
        if t.site.starts_with("if.then>") || t.site.starts_with("if.elsebranch>") || t.site.starts_with("while.body>") {
            return Some(Class::BranchStart);
        }
    }
    if t.site == "proc:rcurly" || t.site == "block:rcurly" {
        return Some(Class::ListEnd);
    }
    let p = prev?;
    if p.site == "assign:op" {
        return Some(Class::AfterAssign);
    }
    if p.text == "(" && (p.site == "call:lparen" || p.site == "if:lparen" || p.site == "while:lparen") {
        return Some(Class::AfterLParen);
    }
    if p.site == "param:colon" {
        return Some(Class::ParamType);
    }
    if p.site == "vardec:colon" {
        return Some(Class::VarType);
    }
    // positions behind `=` of a type declaration and behind `of` are type positions as well, but
    // the property's quantifier does not list them: they are not generated (see DESIGN C16)
    None
}

pub struct Case {
    pub text: String,
    pub cursor: usize,
    pub class: Class,
    pub tight: bool,
    pub prog: Prog,
    pub proc: Option<usize>,
}

pub fn decode(bytes: &[u8]) -> Option<Case> {
    let mut s = Src::new(bytes);
    let cfg = GenCfg { max_decls: 6, budget: 120, ..GenCfg::default() };
    let prog = gen_prog(&mut s, &cfg);
    let r = render(&prog);
    let style = *s.pick(&[Style::Spaced, Style::Plain]);
    let mut l = gen_layout(&r.toks, &mut s, style);
    let cands: Vec<(usize, Class)> = (0..=r.toks.len()).filter_map(|g| classify(&r.toks, g).map(|c| (g, c))).collect();
    // every class gets a fair share: pick the class first
    let classes: Vec<Class> = {
        let mut v: Vec<Class> = Vec::new();
        for (_, c) in &cands {
            if !v.contains(c) {
                v.push(*c);
            }
        }
        v
    };
    if classes.is_empty() {
        return None;
    }
    let class = classes[s.below(classes.len())];
    let of_class: Vec<usize> = cands.iter().filter(|(_, c)| *c == class).map(|(g, _)| *g).collect();
    let g = of_class[s.below(of_class.len())];
    // whitespace of the chosen gap: tight (nothing between the previous token and the cursor) in a
    // quarter of the cases where the lexemes stay apart, otherwise at least one whitespace character
    let can_be_tight = g > 0 && g < r.toks.len() && !reflex::needs_sep(&r.toks[g - 1].text, &r.toks[g].text);
    let tight = can_be_tight && s.chance(1, 4) && class != Class::TopLevel;
    l.gaps[g].comments.clear();
    l.gaps[g].pre = if tight { String::new() } else { s.pick(&[" ", "\n", "\n    ", "  ", "\t", "\r\n"]).to_string() };
    if g == 0 {
        l.gaps[0].pre = s.pick(&[" ", "\n", "\n\n "]).to_string();
    }
    let laid = lay(&r.toks, &l);
    let cursor = if g < r.toks.len() { laid.ranges[g].start } else { laid.text.len() };
    // at the very end of the text a top-level cursor needs whitespace before it
    let (text, cursor) = if g == r.toks.len() && !laid.text.ends_with([' ', '\n']) {
        (format!("{}\n", laid.text), laid.text.len() + 1)
    } else {
        (laid.text.clone(), cursor)
    };
    let proc = if g < r.toks.len() { r.toks[g].proc } else { None };
    let proc = if class == Class::TopLevel { None } else { proc };
    Some(Case { text, cursor, class, tight, prog, proc })
}

fn labels_of(items: &[CompletionItem], kind: CompletionItemKind) -> Vec<String> {
    let mut v: Vec<String> = items.iter().filter(|i| i.kind == Some(kind)).map(|i| i.label.clone()).collect();
    v.sort();
    v
}

pub struct Positions;

impl Check for Positions {
    fn part(&self) -> &'static str {
        "completion-by-position-class"
    }
    fn max_len(&self) -> usize {
        2500
    }
    fn run(&self, bytes: &[u8]) -> CaseResult {
        let Some(case) = decode(bytes) else {
            let mut r = CaseResult::new(fnv(bytes));
            r.excluded.push("no-position".into());
            return r;
        };
        let mut r = CaseResult::new(fnv(case.text.as_bytes()) ^ case.cursor as u64);
        r.label(format!("{}{}", case.class.name(), if case.tight { "/tight" } else { "" }));
        let u = srv::default_uri();
        let mut srv = Srv::new(false);
        srv.open(&u, &case.text);
        let p = lsp::pos_of(&case.text, case.cursor);
        let doctx = srv.doctx.clone();
        let params = CompletionParams { text_document_position: srv::tdp(&u, p), work_done_progress_params: Default::default(), partial_result_params: Default::default(), context: None };
        let detail = || json!({ "text": case.text, "cursor_byte": case.cursor, "cursor": [p.line, p.character], "class": case.class.name(), "tight": case.tight });
        let items = match nav::call("completion", || srv::block_on(crate::features::completion::propose(doctx, params))) {
            Err((sig, what)) => {
                r.fail(format!("{}|completion", sig), what, detail());
                return r;
            }
            Ok(items) => items.unwrap_or_default(),
        };
        let vars = labels_of(&items, CompletionItemKind::VARIABLE);
        let funcs = labels_of(&items, CompletionItemKind::FUNCTION);
        let types = labels_of(&items, CompletionItemKind::STRUCT);
        let keywords = labels_of(&items, CompletionItemKind::KEYWORD);
        let sig = |what: &str| format!("{}|{}{}", what, case.class.name(), if case.tight { "/tight" } else { "" });
        let want_vars: Vec<String> = case.proc.map_or(vec![], |j| {
            let mut v: Vec<String> = case.prog.procs[j].params.iter().chain(case.prog.procs[j].locals.iter()).map(|x| x.name.clone()).collect();
            v.sort();
            v
        });
        let mut want_funcs: Vec<String> = case.prog.procs.iter().map(|x| x.name.clone()).chain(BUILTINS.iter().map(|(n, _)| n.to_string())).collect();
        want_funcs.sort();
        let mut want_types: Vec<String> = case.prog.types.iter().map(|x| x.name.clone()).chain(std::iter::once("int".to_string())).collect();
        want_types.sort();
        // names local to another procedure are never proposed
        let mut foreign: BTreeMap<String, ()> = BTreeMap::new();
        for (j, pr) in case.prog.procs.iter().enumerate() {
            if Some(j) != case.proc {
                for v in pr.params.iter().chain(pr.locals.iter()) {
                    if !want_vars.contains(&v.name) {
                        foreign.insert(v.name.clone(), ());
                    }
                }
            }
        }
        if let Some(f) = vars.iter().find(|v| foreign.contains_key(*v)) {
            r.fail(sig("foreign-local-proposed"), format!("the variable `{}` local to another procedure is proposed", f), detail());
        }
        match case.class {
            Class::TopLevel => {
                if !vars.is_empty() || !funcs.is_empty() || !types.is_empty() {
                    r.fail(sig("non-starter-at-top-level"), format!("outside any declaration variables {:?}, procedures {:?}, types {:?} are proposed", vars, funcs, types), detail());
                }
                if keywords.iter().any(|k| k != "proc" && k != "type") || !keywords.contains(&"proc".to_string()) || !keywords.contains(&"type".to_string()) {
                    r.fail(sig("wrong-starters"), format!("outside any declaration the keywords {:?} are proposed (expected the declaration starters proc and type)", keywords), detail());
                }
                if items.iter().any(|i| i.kind == Some(CompletionItemKind::SNIPPET) && !["proc", "type", "main"].contains(&i.label.as_str())) {
                    r.fail(sig("wrong-starters"), "a snippet other than proc/type/main is proposed outside any declaration", detail());
                }
            }
            Class::StatementStart | Class::BranchStart | Class::ListEnd => {
                if vars != want_vars {
                    r.fail(sig("wrong-variables"), format!("proposed variables {:?}, parameters and locals of the procedure {:?}", vars, want_vars), detail());
                }
                if funcs != want_funcs {
                    r.fail(sig("wrong-procedures"), format!("proposed procedures {:?}, declared and predefined procedures {:?}", funcs, want_funcs), detail());
                }
                if !types.is_empty() {
                    r.fail(sig("types-at-statement-position"), format!("types {:?} proposed at a statement position", types), detail());
                }
            }
            Class::AfterAssign | Class::AfterLParen => {
                if vars != want_vars {
                    r.fail(sig("wrong-variables"), format!("proposed variables {:?}, parameters and locals of the procedure {:?}", vars, want_vars), detail());
                }
                if !types.is_empty() {
                    r.fail(sig("types-at-expression-position"), format!("types {:?} proposed inside a statement", types), detail());
                }
            }
            Class::ParamType | Class::VarType | Class::TypeDeclType | Class::ArrayBaseType => {
                if types != want_types {
                    r.fail(sig("wrong-types"), format!("proposed types {:?}, declared types plus int {:?}", types, want_types), detail());
                }
                if !vars.is_empty() || !funcs.is_empty() {
                    r.fail(sig("non-types-at-type-position"), format!("variables {:?} / procedures {:?} proposed at a type position", vars, funcs), detail());
                }
            }
        }
        let distinct_locals = case.prog.procs.len() >= 2 && !foreign.is_empty();
        r.nontrivial = distinct_locals && case.text[..case.cursor].contains("proc");
        r
    }
    fn describe(&self, bytes: &[u8]) -> Value {
        match decode(bytes) {
            None => json!("no position"),
            Some(c) => json!({ "text": c.text, "cursor_byte": c.cursor, "class": c.class.name(), "tight": c.tight }),
        }
    }
}

pub const E2E: super::e2e::EndToEnd = super::e2e::EndToEnd { part: "end-to-end-binary-vs-handler", methods: &["textDocument/completion"] };

pub fn checks() -> Vec<Box<dyn Check>> {
    vec![Box::new(Positions), Box::new(E2E)]
}

pub fn run(ctx: &Ctx) -> i32 {
    let mut parts = vec![crate::corpus_part(ctx, &checks()), run_pbt(ctx, &Positions, ctx.n(40_000, 600_000))];
    parts.push(run_pbt(ctx, &E2E, ctx.n(400, 8_000)));
    finish(
        ctx,
        parts,
        "well-typed programs (layouts without comments) x one cursor position of a class derived from the token sites: top-level gap; start of a statement in a procedure body or block; start of a branch statement (behind `)` of if/while, behind else); end of a statement list (before the closing brace); behind `:=`; behind `(` of a call or condition; behind `:` of a parameter / variable declaration. Three quarters of the positions have whitespace between the previous token and the cursor, a quarter none (tight). The response is compared as sorted label lists per item kind: VARIABLE = parameters and locals of the enclosing procedure, FUNCTION = declared and predefined procedures (statement positions), STRUCT = declared types plus int (type positions), only declaration starters at top level, never a name local to another procedure; non-trivial = at least two procedures with different local names and a cursor behind the first declaration; distinct = distinct (text, cursor)",
        &[
            "keyword and snippet items are not constrained except at top level (declaration starters only)",
            "at expression positions (behind `:=`, `(`) only the variable set is constrained",
            "a top-level cursor is always preceded by whitespace (directly behind the last character of a declaration the cursor still touches that declaration)",
        ],
        json!({}),
    )
}

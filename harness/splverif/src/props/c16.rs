//! C16 Completion proposals respect scope and syntactic position.

use super::nav;
use crate::driver::*;
use crate::srv::{self, Srv};
use lsp_types::*;
use serde_json::{json, Value};
use splgen::layout::{gen_layout, lay, Style};
use splgen::lsp;
use splgen::prog::*;
use splgen::reflex;
use splgen::render::{render, Tok};
use splgen::src::{fnv, Src};
use std::collections::BTreeMap;

#[derive(Clone, Copy, Debug, PartialEq, Eq)]
pub enum Class {
    TopLevel,
    StatementStart,
    BranchStart,
    ListEnd,
    AfterAssign,
    AfterLParen,
    ParamType,
    VarType,
    TypeDeclType,
    ArrayBaseType,
}

impl Class {
    fn name(&self) -> &'static str {
        match self {
            Class::TopLevel => "top-level-gap",
            Class::StatementStart => "statement-start",
            Class::BranchStart => "branch-statement-start",
            Class::ListEnd => "end-of-statement-list",
            Class::AfterAssign => "after-assign",
            Class::AfterLParen => "after-lparen-in-statement",
            Class::ParamType => "parameter-type",
            Class::VarType => "variable-type",
            Class::TypeDeclType => "type-declaration-type",
            Class::ArrayBaseType => "array-base-type",
        }
    }
}

/// classify the gap in front of token g (None: not a position the statement speaks about)
fn classify(toks: &[Tok], g: usize) -> Option<Class> {
    if g >= toks.len() {
        return Some(Class::TopLevel);
    }
    let t = &toks[g];
    let prev = if g > 0 { Some(&toks[g - 1]) } else { None };
    if t.site.starts_with("top.decl>") {
        return Some(Class::TopLevel);
    }
    if t.stmt_start {
        if t.site.starts_with("proc.body>") || t.site.starts_with("block.item>") {
            return Some(Class::StatementStart);
        }
        if t.site.starts_with("if.then>") || t.site.starts_with("if.elsebranch>") || t.site.starts_with("while.body>") {
            return Some(Class::BranchStart);
        }
    }
    if t.site == "proc:rcurly" || t.site == "block:rcurly" {
        return Some(Class::ListEnd);
    }
    let p = prev?;
    if p.site == "assign:op" {
        return Some(Class::AfterAssign);
    }
    if p.text == "(" && (p.site == "call:lparen" || p.site == "if:lparen" || p.site == "while:lparen") {
        return Some(Class::AfterLParen);
    }
    if p.site == "param:colon" {
        return Some(Class::ParamType);
    }
    if p.site == "vardec:colon" {
        return Some(Class::VarType);
    }
    // positions behind `=` of a type declaration and behind `of` are type positions as well, but
    // the property's quantifier does not list them: they are not generated (see DESIGN C16)
    None
}

pub struct Case {
    pub text: String,
    pub cursor: usize,
    pub class: Class,
    pub tight: bool,
    pub prog: Prog,
    pub proc: Option<usize>,
}

pub fn decode(bytes: &[u8]) -> Option<Case> {
    let mut s = Src::new(bytes);
    let cfg = GenCfg { max_decls: 6, budget: 120, ..GenCfg::default() };
    let prog = gen_prog(&mut s, &cfg);
    let r = render(&prog);
    let style = *s.pick(&[Style::Spaced, Style::Plain, Style::LeadingComments, Style::Commented]);
    let mut l = gen_layout(&r.toks, &mut s, style);
    let cands: Vec<(usize, Class)> = (0..=r.toks.len()).filter_map(|g| classify(&r.toks, g).map(|c| (g, c))).collect();
    // every class gets a fair share: pick the class first
    let classes: Vec<Class> = {
        let mut v: Vec<Class> = Vec::new();
        for (_, c) in &cands {
            if !v.contains(c) {
                v.push(*c);
            }
        }
        v
    };
    if classes.is_empty() {
        return None;
    }
    let class = classes[s.below(classes.len())];
    let of_class: Vec<usize> = cands.iter().filter(|(_, c)| *c == class).map(|(g, _)| *g).collect();
    let g = of_class[s.below(of_class.len())];
    // whitespace of the chosen gap: tight (nothing between the previous token and the cursor) in a
    // quarter of the cases where the lexemes stay apart, otherwise at least one whitespace character
    let can_be_tight = g > 0 && g < r.toks.len() && !reflex::needs_sep(&r.toks[g - 1].text, &r.toks[g].text);
    let tight = can_be_tight && s.chance(1, 4) && class != Class::TopLevel;
    l.gaps[g].comments.clear();
    l.gaps[g].pre = if tight { String::new() } else { s.pick(&[" ", "\n", "\n    ", "  ", "\t", "\r\n"]).to_string() };
    if g == 0 {
        l.gaps[0].pre = s.pick(&[" ", "\n", "\n\n "]).to_string();
    }
    let laid = lay(&r.toks, &l);
    let cursor = if g < r.toks.len() { laid.ranges[g].start } else { laid.text.len() };
    // at the very end of the text a top-level cursor needs whitespace before it
    let (text, cursor) = if g == r.toks.len() && !laid.text.ends_with([' ', '\n']) {
        (format!("{}\n", laid.text), laid.text.len() + 1)
    } else {
        (laid.text.clone(), cursor)
    };
    let proc = if g < r.toks.len() { r.toks[g].proc } else { None };
    let proc = if class == Class::TopLevel { None } else { proc };
    Some(Case { text, cursor, class, tight, prog, proc })
}

fn labels_of(items: &[CompletionItem], kind: CompletionItemKind) -> Vec<String> {
    let mut v: Vec<String> = items.iter().filter(|i| i.kind == Some(kind)).map(|i| i.label.clone()).collect();
    v.sort();
    v
}

pub struct Positions;

impl Check for Positions {
    fn part(&self) -> &'static str {
        "completion-by-position-class"
    }
    fn max_len(&self) -> usize {
        2500
    }
    fn run(&self, bytes: &[u8]) -> CaseResult {
        let Some(case) = decode(bytes) else {
            let mut r = CaseResult::new(fnv(bytes));
            r.excluded.push("no-position".into());
            return r;
        };
        let mut r = CaseResult::new(fnv(case.text.as_bytes()) ^ case.cursor as u64);
        r.label(format!("{}{}", case.class.name(), if case.tight { "/tight" } else { "" }));
        let u = srv::default_uri();
        let mut srv = Srv::new(false);
        srv.open(&u, &case.text);
        let p = lsp::pos_of(&case.text, case.cursor);
        let doctx = srv.doctx.clone();
        let params = CompletionParams { text_document_position: srv::tdp(&u, p), work_done_progress_params: Default::default(), partial_result_params: Default::default(), context: None };
        let detail = || json!({ "text": case.text, "cursor_byte": case.cursor, "cursor": [p.line, p.character], "class": case.class.name(), "tight": case.tight });
        let items = match nav::call("completion", || srv::block_on(crate::features::completion::propose(doctx, params))) {
            Err((sig, what)) => {
                r.fail(format!("{}|completion", sig), what, detail());
                return r;
            }
            Ok(items) => items,
        };
        let raw = serde_json::to_value(&items).unwrap_or(Value::Null);
        let items = items.unwrap_or_default();
        let vars = labels_of(&items, CompletionItemKind::VARIABLE);
        let funcs = labels_of(&items, CompletionItemKind::FUNCTION);
        let types = labels_of(&items, CompletionItemKind::STRUCT);
        let keywords = labels_of(&items, CompletionItemKind::KEYWORD);
        // tight positions are a recorded class: only if the proposals are exactly the recorded baseline's
        let baseline_same = std::cell::OnceCell::new();
        let as_baseline = || {
            *baseline_same.get_or_init(|| {
                let m = "textDocument/completion";
                // the constrained part of the answer: labels of variables (6), functions (3), types (22)
                let constrained = |v: &Value| {
                    let mut l: Vec<String> = v.as_array().map_or(vec![], |a| a.iter().filter(|i| matches!(i["kind"].as_u64(), Some(6) | Some(3) | Some(22))).map(|i| format!("{}:{}", i["kind"], i["label"])).collect());
                    l.sort();
                    json!(l)
                };
                crate::pinned_lsp::baseline_agrees_on(m, &u, &case.text, crate::pinned_lsp::position_params(m, &u, p.line, p.character), &raw, constrained)
            })
        };
        let sig = |what: &str| {
            let s0 = format!("{}|{}{}", what, case.class.name(), if case.tight { "/tight" } else { "" });
            if case.tight {
                crate::pinned_lsp::triage(s0, as_baseline())
            } else {
                s0
            }
        };
        let want_vars: Vec<String> = case.proc.map_or(vec![], |j| {
            let mut v: Vec<String> = case.prog.procs[j].params.iter().chain(case.prog.procs[j].locals.iter()).map(|x| x.name.clone()).collect();
            v.sort();
            v
        });
        let mut want_funcs: Vec<String> = case.prog.procs.iter().map(|x| x.name.clone()).chain(BUILTINS.iter().map(|(n, _)| n.to_string())).collect();
        want_funcs.sort();
        let mut want_types: Vec<String> = case.prog.types.iter().map(|x| x.name.clone()).chain(std::iter::once("int".to_string())).collect();
        want_types.sort();
        // names local to another procedure are never proposed
        let mut foreign: BTreeMap<String, ()> = BTreeMap::new();
        for (j, pr) in case.prog.procs.iter().enumerate() {
            if Some(j) != case.proc {
                for v in pr.params.iter().chain(pr.locals.iter()) {
                    if !want_vars.contains(&v.name) {
                        foreign.insert(v.name.clone(), ());
                    }
                }
            }
        }
        if let Some(f) = vars.iter().find(|v| foreign.contains_key(*v)) {
            r.fail(sig("foreign-local-proposed"), format!("the variable `{}` local to another procedure is proposed", f), detail());
        }
        match case.class {
            Class::TopLevel => {
                if !vars.is_empty() || !funcs.is_empty() || !types.is_empty() {
                    r.fail(sig("non-starter-at-top-level"), format!("outside any declaration variables {:?}, procedures {:?}, types {:?} are proposed", vars, funcs, types), detail());
                }
                if keywords.iter().any(|k| k != "proc" && k != "type") || !keywords.contains(&"proc".to_string()) || !keywords.contains(&"type".to_string()) {
                    r.fail(sig("wrong-starters"), format!("outside any declaration the keywords {:?} are proposed (expected the declaration starters proc and type)", keywords), detail());
                }
                if items.iter().any(|i| i.kind == Some(CompletionItemKind::SNIPPET) && !["proc", "type", "main"].contains(&i.label.as_str())) {
                    r.fail(sig("wrong-starters"), "a snippet other than proc/type/main is proposed outside any declaration", detail());
                }
            }
            Class::StatementStart | Class::BranchStart | Class::ListEnd => {
                if vars != want_vars {
                    r.fail(sig("wrong-variables"), format!("proposed variables {:?}, parameters and locals of the procedure {:?}", vars, want_vars), detail());
                }
                if funcs != want_funcs {
                    r.fail(sig("wrong-procedures"), format!("proposed procedures {:?}, declared and predefined procedures {:?}", funcs, want_funcs), detail());
                }
                if !types.is_empty() {
                    r.fail(sig("types-at-statement-position"), format!("types {:?} proposed at a statement position", types), detail());
                }
            }
            Class::AfterAssign | Class::AfterLParen => {
                if vars != want_vars {
                    r.fail(sig("wrong-variables"), format!("proposed variables {:?}, parameters and locals of the procedure {:?}", vars, want_vars), detail());
                }
                if !types.is_empty() {
                    r.fail(sig("types-at-expression-position"), format!("types {:?} proposed inside a statement", types), detail());
                }
            }
            Class::ParamType | Class::VarType | Class::TypeDeclType | Class::ArrayBaseType => {
                if types != want_types {
                    r.fail(sig("wrong-types"), format!("proposed types {:?}, declared types plus int {:?}", types, want_types), detail());
                }
                if !vars.is_empty() || !funcs.is_empty() {
                    r.fail(sig("non-types-at-type-position"), format!("variables {:?} / procedures {:?} proposed at a type position", vars, funcs), detail());
                }
            }
        }
        let distinct_locals = case.prog.procs.len() >= 2 && !foreign.is_empty();
        r.nontrivial = distinct_locals && case.text[..case.cursor].contains("proc");
        r
    }
    fn describe(&self, bytes: &[u8]) -> Value {
        match decode(bytes) {
            None => json!("no position"),
            Some(c) => json!({ "text": c.text, "cursor_byte": c.cursor, "class": c.class.name(), "tight": c.tight }),
        }
    }
}

/// Metamorphic part: the proposals at a position after a history of edits equal the proposals at
/// the same position in a freshly opened document with the same text (scope and position class are
/// functions of the text alone). Histories on which the library-level incremental analysis itself
/// diverges are C01's subject and are excluded here.
pub struct AfterEdits;

fn proposals(srv: &Srv, u: &Url, p: lsp::Pos) -> Result<Vec<(String, String)>, (String, String)> {
    let doctx = srv.doctx.clone();
    let params = CompletionParams { text_document_position: srv::tdp(u, p), work_done_progress_params: Default::default(), partial_result_params: Default::default(), context: None };
    let items = nav::call("completion", || srv::block_on(crate::features::completion::propose(doctx, params)))?.unwrap_or_default();
    let mut v: Vec<(String, String)> = items.iter().map(|i| (format!("{:?}", i.kind), i.label.clone())).collect();
    v.sort();
    Ok(v)
}

impl Check for AfterEdits {
    fn part(&self) -> &'static str {
        "completion-after-edits-equals-fresh"
    }
    fn max_len(&self) -> usize {
        2500
    }
    fn run(&self, bytes: &[u8]) -> CaseResult {
        use super::c01;
        // the tail of the choice stream selects the history flavour and the cursor
        let (case, flavour) = if bytes.first().map_or(false, |b| b % 2 == 0) { (c01::decode_model(bytes.get(1..).unwrap_or(&[])).0, "model-edits") } else { (c01::decode(bytes.get(1..).unwrap_or(&[])), "text-edits") };
        let mut r = CaseResult::new(fnv(format!("{:?}{:?}", case.initial, case.history).as_bytes()) ^ 0xc16);
        r.label(flavour);
        if c01::run_history(&case, |_| {}).is_err() {
            r.excluded.push("library-level-divergence(C01)".into());
            return r;
        }
        let u = srv::default_uri();
        let mut live = Srv::new(false);
        live.open(&u, &case.initial);
        let mut text = case.initial.clone();
        let detail = |text: &str, extra: Value| json!({ "initial": case.initial, "history": case.history.iter().map(|b| b.iter().map(|e| json!({"range": [e.range.start, e.range.end], "insert": e.text})).collect::<Vec<_>>()).collect::<Vec<_>>(), "text": text, "extra": extra });
        r.evals = 0;
        for (k, batch) in case.history.iter().enumerate() {
            let mut t2 = text.clone();
            let mut changes = Vec::new();
            for e in batch {
                if !lsp::expressible(&t2, e.range.start) || !lsp::expressible(&t2, e.range.end) {
                    r.excluded.push("edit-not-expressible-as-position".into());
                    r.evals = r.evals.max(1);
                    return r;
                }
                changes.push(srv::change_event(Some((lsp::pos_of(&t2, e.range.start), lsp::pos_of(&t2, e.range.end))), &e.text));
                t2.replace_range(e.range.clone(), &e.text);
            }
            let whitespace_only = batch.iter().all(|e| e.text.trim().is_empty() && text.get(e.range.clone()).map_or(false, |d| d.trim().is_empty()));
            live.change(&u, changes);
            text = t2;
            if let Err(sig) = live.settle() {
                r.fail(sig, "the document broker dies", detail(&text, json!(null)));
                return r;
            }
            let mut fresh = Srv::new(false);
            fresh.open(&u, &text);
            // cursors: behind the last edit, at statement starts and line starts
            let mut offsets: Vec<usize> = Vec::new();
            if let Some(e) = batch.last() {
                offsets.push((e.range.start + e.text.len()).min(text.len()));
            }
            let toks = reflex::lex(&text);
            for t in toks.iter().filter(|t| !t.is_comment()).step_by(1 + toks.len() / 6) {
                offsets.push(t.range.start);
            }
            offsets.push(text.len());
            for o in offsets {
                let mut o = o;
                while !lsp::expressible(&text, o) && o > 0 {
                    o -= 1;
                }
                let p = lsp::pos_of(&text, o);
                r.evals += 1;
                let (a, b) = match (proposals(&live, &u, p), proposals(&fresh, &u, p)) {
                    (Ok(a), Ok(b)) => (a, b),
                    (Err((sig, what)), _) | (_, Err((sig, what))) => {
                        r.fail(format!("{}|completion", sig), what, detail(&text, json!({ "cursor": [p.line, p.character] })));
                        return r;
                    }
                };
                if a != b {
                    let only_live: Vec<_> = a.iter().filter(|x| !b.contains(x)).collect();
                    let only_fresh: Vec<_> = b.iter().filter(|x| !a.contains(x)).collect();
                    r.fail(
                        "proposals-after-edit-differ-from-fresh",
                        format!("after notification {} completion at {:?} proposes {:?} that a freshly opened document with the same text does not, and lacks {:?}", k + 1, p, only_live, only_fresh),
                        detail(&text, json!({ "cursor": [p.line, p.character] })),
                    );
                    return r;
                }
            }
            if whitespace_only {
                r.label("whitespace-only-notification");
            }
        }
        r.evals = r.evals.max(1);
        r.nontrivial = !case.history.is_empty() && text.contains("proc");
        r
    }
    fn describe(&self, bytes: &[u8]) -> Value {
        let case = if bytes.first().map_or(false, |b| b % 2 == 0) { super::c01::decode_model(bytes.get(1..).unwrap_or(&[])).0 } else { super::c01::decode(bytes.get(1..).unwrap_or(&[])) };
        super::c01::describe_case(&case)
    }
}

pub const E2E: super::e2e::EndToEnd = super::e2e::EndToEnd { part: "end-to-end-binary-vs-handler", methods: &["textDocument/completion"] };

pub fn checks() -> Vec<Box<dyn Check>> {
    vec![Box::new(Positions), Box::new(E2E), Box::new(AfterEdits)]
}

pub fn run(ctx: &Ctx) -> i32 {
    let mut parts = vec![crate::corpus_part(ctx, &checks()), run_pbt(ctx, &Positions, ctx.n(40_000, 600_000))];
    parts.push(run_pbt(ctx, &E2E, ctx.n(400, 8_000)));
    parts.push(run_pbt(ctx, &AfterEdits, ctx.n(5_000, 80_000)));
    finish(
        ctx,
        parts,
        "well-typed programs (half of the layouts with comments, none in the cursor gap) x one cursor position of a class derived from the token sites: top-level gap; start of a statement in a procedure body or block; start of a branch statement (behind `)` of if/while, behind else); end of a statement list (before the closing brace); behind `:=`; behind `(` of a call or condition; behind `:` of a parameter / variable declaration. Three quarters of the positions have whitespace between the previous token and the cursor, a quarter none (tight). The response is compared as sorted label lists per item kind: VARIABLE = parameters and locals of the enclosing procedure, FUNCTION = declared and predefined procedures (statement positions), STRUCT = declared types plus int (type positions), only declaration starters at top level, never a name local to another procedure; metamorphic part: after every notification of an edit history (C01's generators: text-level and model-level edits incl. whitespace-only ones and moved comment ends) the proposals at the edit, at token starts and at the end equal those of a freshly opened document with the same text; non-trivial = at least two procedures with different local names and a cursor behind the first declaration; distinct = distinct (text, cursor)",
        &[
            "keyword and snippet items are not constrained except at top level (declaration starters only)",
            "at expression positions (behind `:=`, `(`) only the variable set is constrained",
            "a top-level cursor is always preceded by whitespace (directly behind the last character of a declaration the cursor still touches that declaration)",
        ],
        json!({}),
    )
}

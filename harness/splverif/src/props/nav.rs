//! Shared machinery for the navigation properties C12, C13, C14, C16: a generated well-typed
//! program with its binding model (R3), opened once in an in-process server; request helpers.

use crate::driver::*;
use crate::features;
use crate::srv::{self, Srv};
use lsp_types::*;
use splgen::layout::{gen_layout, lay, Laid, Style};
use splgen::lsp::{self, Pos};
use splgen::prog::*;
use splgen::render::{render, Rendered, Role, Tok};
use splgen::src::Src;
use std::collections::BTreeMap;
use std::ops::Range as StdRange;

pub struct World {
    pub prog: Prog,
    pub rendered: Rendered,
    pub laid: Laid,
    pub srv: Srv,
    pub uri: Url,
    /// binding -> index of the declaring token
    pub decl_tok: BTreeMap<Bind, usize>,
    /// binding -> all occurrence tokens (declaration included), in text order
    pub occurrences: BTreeMap<Bind, Vec<usize>>,
}

pub fn build_world(s: &mut Src, cfg: &GenCfg, styles: &[Style]) -> World {
    let prog = gen_prog(s, cfg);
    let rendered = render(&prog);
    let style = *s.pick(styles);
    let l = gen_layout(&rendered.toks, s, style);
    let mut laid = lay(&rendered.toks, &l);
    // classic Mac line ends: only where no comment depends on a line feed
    if laid.n_comments == 0 && s.chance(1, 6) {
        laid.text = laid.text.replace('\n', "\r");
    }
    let mut decl_tok = BTreeMap::new();
    let mut occurrences: BTreeMap<Bind, Vec<usize>> = BTreeMap::new();
    for (i, t) in rendered.toks.iter().enumerate() {
        match &t.role {
            Role::Decl(b) => {
                decl_tok.insert(*b, i);
                occurrences.entry(*b).or_default().push(i);
            }
            Role::Use(b) => occurrences.entry(*b).or_default().push(i),
            Role::Other => {}
        }
    }
    let uri = srv::default_uri();
    let mut srv = Srv::new(false);
    srv.open(&uri, &laid.text);
    World { prog, rendered, laid, srv, uri, decl_tok, occurrences }
}

impl World {
    pub fn text(&self) -> &str {
        &self.laid.text
    }
    pub fn tok(&self, i: usize) -> &Tok {
        &self.rendered.toks[i]
    }
    pub fn bind_of(&self, i: usize) -> Option<Bind> {
        match &self.rendered.toks[i].role {
            Role::Decl(b) | Role::Use(b) => Some(*b),
            Role::Other => None,
        }
    }
    pub fn pos_at(&self, offset: usize) -> Pos {
        lsp::pos_of(self.text(), offset)
    }
    /// range of model token i as LSP positions under the client model
    pub fn tok_range(&self, i: usize) -> (Pos, Pos) {
        let r = &self.laid.ranges[i];
        (self.pos_at(r.start), self.pos_at(r.end))
    }
    /// byte range addressed by a server-reported range under the client model
    pub fn bytes_of(&self, r: &Range) -> StdRange<usize> {
        lsp::offset_of(self.text(), srv::from_lsp(r.start))..lsp::offset_of(self.text(), srv::from_lsp(r.end))
    }
    pub fn tdp(&self, p: Pos) -> TextDocumentPositionParams {
        srv::tdp(&self.uri, p)
    }
    /// identifier tokens, optionally thinned out to at most `max` by the stream
    pub fn ident_tokens(&self, s: &mut Src, max: usize) -> Vec<usize> {
        let all: Vec<usize> = (0..self.rendered.toks.len()).filter(|i| self.bind_of(*i).is_some()).collect();
        if all.len() <= max {
            return all;
        }
        let mut out = Vec::new();
        let start = s.below(all.len());
        let step = (all.len() / max).max(1);
        let mut k = start;
        while out.len() < max {
            out.push(all[k % all.len()]);
            k += step;
        }
        out.sort();
        out.dedup();
        out
    }
    /// the token's spelling denotes a parameter/local of the enclosing procedure AND a global
    /// entity (type, procedure incl. the enclosing one, predefined): the recorded ambiguity class
    pub fn ambiguous_name(&self, i: usize) -> bool {
        let t = &self.rendered.toks[i];
        let Some(p) = t.proc else { return false };
        let proc = &self.prog.procs[p];
        let is_local = proc.params.iter().chain(proc.locals.iter()).any(|v| v.name == t.text);
        let is_global = t.text == "int"
            || self.prog.types.iter().any(|x| x.name == t.text)
            || self.prog.procs.iter().any(|x| x.name == t.text)
            || BUILTINS.iter().any(|(n, _)| *n == t.text);
        is_local && is_global
    }
    /// cursor offsets inside the identifier: first, an interior and the last character
    pub fn cursor_offsets(&self, i: usize) -> Vec<usize> {
        let r = &self.laid.ranges[i];
        let mut v = vec![r.start];
        if r.len() > 2 {
            v.push(r.start + r.len() / 2);
        }
        if r.len() > 1 {
            v.push(r.end - 1);
        }
        v
    }
    /// documentation (comment texts) collected by the declaration starting at token `first`
    pub fn doc_lines(&self, first: usize) -> Vec<String> {
        self.laid.gap_comments[first].iter().map(|(c, _)| c.trim().to_string()).filter(|c| !c.is_empty()).collect()
    }
    /// first token of the declaration construct that declares `b` (for documentation)
    pub fn decl_first_token(&self, b: Bind) -> Option<usize> {
        let d = *self.decl_tok.get(&b)?;
        // walk back to the token that starts the declaring construct
        let toks = &self.rendered.toks;
        let mut i = d;
        loop {
            if toks[i].site.ends_with(":first") && (toks[i].site.contains(">proc:") || toks[i].site.contains(">typedec:") || toks[i].site.contains(">param:") || toks[i].site.contains(">vardec:")) {
                return Some(i);
            }
            if i == 0 {
                return None;
            }
            i -= 1;
        }
    }
}

pub type HandlerResult<T> = Result<T, (String, String)>;

pub fn call<T>(name: &str, f: impl FnOnce() -> color_eyre::eyre::Result<T>) -> HandlerResult<T> {
    match catch(f) {
        Err(sig) => Err((sig, format!("{} panics", name))),
        Ok(Err(e)) => Err(("handler-error".to_string(), format!("{} fails: {}", name, e))),
        Ok(Ok(v)) => Ok(v),
    }
}

pub fn goto_params(w: &World, p: Pos) -> GotoDefinitionParams {
    GotoDefinitionParams { text_document_position_params: w.tdp(p), work_done_progress_params: Default::default(), partial_result_params: Default::default() }
}

pub fn declaration(w: &World, p: Pos) -> HandlerResult<Option<Location>> {
    let doctx = w.srv.doctx.clone();
    let params = goto_params(w, p);
    call("go-to-declaration", || srv::block_on(features::goto::declaration(doctx, params)))
}

pub fn definition(w: &World, p: Pos) -> HandlerResult<Option<Location>> {
    let doctx = w.srv.doctx.clone();
    let params = goto_params(w, p);
    call("go-to-definition", || srv::block_on(features::goto::definition(doctx, params)))
}

pub fn type_definition(w: &World, p: Pos) -> HandlerResult<Option<Location>> {
    let doctx = w.srv.doctx.clone();
    let params = goto_params(w, p);
    call("go-to-type-definition", || srv::block_on(features::goto::type_definition(doctx, params)))
}

pub fn implementation(w: &World, p: Pos) -> HandlerResult<Option<Location>> {
    let doctx = w.srv.doctx.clone();
    let params = goto_params(w, p);
    call("go-to-implementation", || srv::block_on(features::goto::implementation(doctx, params)))
}

pub fn references(w: &World, p: Pos) -> HandlerResult<Option<Vec<Location>>> {
    let doctx = w.srv.doctx.clone();
    let params = ReferenceParams {
        text_document_position: w.tdp(p),
        work_done_progress_params: Default::default(),
        partial_result_params: Default::default(),
        context: ReferenceContext { include_declaration: true },
    };
    call("find-references", || srv::block_on(features::references::find(doctx, params)))
}

pub fn rename(w: &World, p: Pos, new_name: &str) -> HandlerResult<Option<WorkspaceEdit>> {
    let doctx = w.srv.doctx.clone();
    let params = RenameParams { text_document_position: w.tdp(p), new_name: new_name.to_string(), work_done_progress_params: Default::default() };
    call("rename", || srv::block_on(features::references::rename(doctx, params)))
}

pub fn prepare_rename(w: &World, p: Pos) -> HandlerResult<Option<Range>> {
    let doctx = w.srv.doctx.clone();
    let params = w.tdp(p);
    call("prepare-rename", || srv::block_on(features::references::prepare_rename(doctx, params)))
}

pub fn hover(w: &World, p: Pos) -> HandlerResult<Option<Hover>> {
    let doctx = w.srv.doctx.clone();
    let params = HoverParams { text_document_position_params: w.tdp(p), work_done_progress_params: Default::default() };
    call("hover", || srv::block_on(features::hover(doctx, params)))
}

pub fn signature_help(w: &World, p: Pos) -> HandlerResult<Option<SignatureHelp>> {
    let doctx = w.srv.doctx.clone();
    let params = SignatureHelpParams { context: None, text_document_position_params: w.tdp(p), work_done_progress_params: Default::default() };
    call("signature-help", || srv::block_on(features::signature_help(doctx, params)))
}

pub fn completion(w: &World, p: Pos) -> HandlerResult<Option<Vec<CompletionItem>>> {
    let doctx = w.srv.doctx.clone();
    let params = CompletionParams { text_document_position: w.tdp(p), work_done_progress_params: Default::default(), partial_result_params: Default::default(), context: None };
    call("completion", || srv::block_on(features::completion::propose(doctx, params)))
}

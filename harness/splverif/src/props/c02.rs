//! C02 The server never crashes or goes silent, whatever the document or request.

use super::c18::{supported_params, SUPPORTED, WATCHDOG_MS};
use crate::driver::*;
use crate::features;
use crate::session::{self, RunOpts};
use crate::srv::{self, Srv};
use lsp_types::*;
use serde_json::{json, Value};
use spl_frontend::{AnalyzedSource, ErrorContainer, TextChange};
use splgen::lsp::{self, Change, Pos};
use splgen::prog::GenCfg;
use splgen::reflex;
use splgen::src::{fnv, Src};
use splgen::text::{self, Edit};

/// deeply nested but bounded constructs (depth 20-60; the release server handles about 150)
fn nested_doc(s: &mut Src) -> String {
    let d = 20 + s.below(41);
    match s.below(5) {
        0 => format!("proc main() {{ var x: int; x := {}1{}; }}\n", "(".repeat(d), ")".repeat(d)),
        1 => format!("proc main() {{ {} ; {} }}\n", "{".repeat(d), "}".repeat(d)),
        2 => format!("proc main() {{ var a: array [2] of int; a[0] := {}0{}; }}\n", "a[".repeat(d), "]".repeat(d)),
        3 => format!("proc main() {{ var x: int; {} x := 1; }}\n", "if (x = 0) ".repeat(d)),
        _ => format!("proc main() {{ var x: int; x := {}1; }}\n", "- ".repeat(d)),
    }
}

pub fn gen_doc(s: &mut Src) -> (String, String) {
    if s.chance(1, 12) {
        let t = nested_doc(s);
        // sometimes broken: the closing half is missing
        let t = if s.chance(1, 3) { t[..t.len() / 2].to_string() } else { t };
        return ("nested".to_string(), t);
    }
    let deep = s.chance(1, 8);
    let cfg = if deep { GenCfg { max_depth: 22, budget: 300, max_decls: 3, ..GenCfg::default() } } else { GenCfg { max_decls: 5, budget: 120, ..GenCfg::default() } };
    let (st, t) = text::gen_document(s, &cfg);
    let t = match s.below(8) {
        0 => t.replace('\n', "\r\n"),
        1 => format!("{}// unterminated comment", t),
        2 => format!("{}'", t),
        _ => t,
    };
    (format!("{}{}", st.name(), if deep { "-deep" } else { "" }), t)
}

/// positions of every flavour the property lists
pub fn gen_position(s: &mut Src, text: &str) -> (Pos, &'static str) {
    let toks = reflex::lex(text);
    let lines = lsp::lines(text);
    let snap = |o: usize| {
        let mut o = o.min(text.len());
        while !lsp::expressible(text, o) && o > 0 {
            o -= 1;
        }
        o
    };
    match s.below(9) {
        0 => (Pos { line: 0, character: 0 }, "origin"),
        1 => (Pos { line: lines.len() as u32 + s.below(3) as u32, character: s.below(4) as u32 }, "line-past-end"),
        2 => {
            let l = s.below(lines.len());
            let w: usize = text[lines[l].clone()].chars().map(|c| c.len_utf16()).sum();
            (Pos { line: l as u32, character: (w + 1 + s.below(5)) as u32 }, "column-past-end")
        }
        3 => (lsp::pos_of(text, snap(s.below(text.len() + 1))), "anywhere"),
        k => {
            let t = &toks[s.below(toks.len())];
            let o = match k {
                4 => t.range.start,
                5 => t.range.start + t.range.len() / 2,
                6 => t.range.end.saturating_sub(1).max(t.range.start),
                7 => t.range.end,
                _ => t.range.end + 1,
            };
            (lsp::pos_of(text, snap(o)), ["token-start", "token-inside", "token-last-char", "token-just-past", "behind-token"][k - 4])
        }
    }
}

/// all 13 requests through the real handlers; Err((request, signature, description)) at the first failure
pub fn request_all(srv: &Srv, uri: &Url, p: Pos, which: Option<usize>) -> Result<u64, (String, String, String)> {
    let tdp = || srv::tdp(uri, p);
    let td = || TextDocumentIdentifier { uri: uri.clone() };
    let wd = WorkDoneProgressParams::default;
    let pr = PartialResultParams::default;
    let mut n = 0;
    macro_rules! go {
        ($idx:expr, $name:expr, $call:expr) => {
            if which.map_or(true, |w| w == $idx) {
                n += 1;
                let doctx = srv.doctx.clone();
                match catch(|| srv::block_on($call(doctx))) {
                    Err(sig) => return Err(($name.to_string(), sig, format!("{} panics", $name))),
                    Ok(Err(e)) => return Err(($name.to_string(), "handler-error".into(), format!("{} returns an error, which ends the server process: {}", $name, e))),
                    Ok(Ok(_)) => {}
                }
            }
        };
    }
    go!(0, "declaration", |d| features::goto::declaration(d, GotoDefinitionParams { text_document_position_params: tdp(), work_done_progress_params: wd(), partial_result_params: pr() }));
    go!(1, "definition", |d| features::goto::definition(d, GotoDefinitionParams { text_document_position_params: tdp(), work_done_progress_params: wd(), partial_result_params: pr() }));
    go!(2, "implementation", |d| features::goto::implementation(d, GotoDefinitionParams { text_document_position_params: tdp(), work_done_progress_params: wd(), partial_result_params: pr() }));
    go!(3, "typeDefinition", |d| features::goto::type_definition(d, GotoDefinitionParams { text_document_position_params: tdp(), work_done_progress_params: wd(), partial_result_params: pr() }));
    go!(4, "references", |d| features::references::find(d, ReferenceParams { text_document_position: tdp(), work_done_progress_params: wd(), partial_result_params: pr(), context: ReferenceContext { include_declaration: true } }));
    go!(5, "hover", |d| features::hover(d, HoverParams { text_document_position_params: tdp(), work_done_progress_params: wd() }));
    go!(6, "rename", |d| features::references::rename(d, RenameParams { text_document_position: tdp(), new_name: "renamed".into(), work_done_progress_params: wd() }));
    go!(7, "prepareRename", |d| features::references::prepare_rename(d, tdp()));
    go!(8, "completion", |d| features::completion::propose(d, CompletionParams { text_document_position: tdp(), work_done_progress_params: wd(), partial_result_params: pr(), context: None }));
    go!(9, "foldingRange", |d| features::fold(d, FoldingRangeParams { text_document: td(), work_done_progress_params: wd(), partial_result_params: pr() }));
    go!(10, "semanticTokens", |d| features::semantic_tokens(d, SemanticTokensParams { text_document: td(), work_done_progress_params: wd(), partial_result_params: pr() }));
    go!(11, "signatureHelp", |d| features::signature_help(d, SignatureHelpParams { context: None, text_document_position_params: tdp(), work_done_progress_params: wd() }));
    go!(12, "formatting", |d| features::format(d, DocumentFormattingParams { text_document: td(), options: FormattingOptions { tab_size: 4, insert_spaces: true, ..Default::default() }, work_done_progress_params: wd() }));
    Ok(n)
}

/// edits as LSP changes under the client model (positions from byte ranges)
fn to_change(text: &str, e: &Edit) -> Option<Change> {
    if !lsp::expressible(text, e.range.start) || !lsp::expressible(text, e.range.end) {
        return None;
    }
    Some(Change { range: Some((lsp::pos_of(text, e.range.start), lsp::pos_of(text, e.range.end))), text: e.text.clone() })
}

pub struct InProcess;

struct Case {
    stratum: String,
    text: String,
    history: Vec<Vec<Edit>>,
}

fn decode(s: &mut Src) -> Case {
    let (stratum, text) = gen_doc(s);
    let history = if s.chance(1, 2) { text::gen_history(s, &text, 4) } else { vec![] };
    Case { stratum, text, history }
}

impl Check for InProcess {
    fn part(&self) -> &'static str {
        "in-process-analysis-and-handlers"
    }
    fn max_len(&self) -> usize {
        2500
    }
    fn run(&self, bytes: &[u8]) -> CaseResult {
        let mut s = Src::new(bytes);
        let case = decode(&mut s);
        let mut r = CaseResult::new(fnv(format!("{:?}{:?}", case.text, case.history).as_bytes()));
        r.label(format!("stratum:{}", case.stratum));
        r.evals = 0;
        let detail = |text: &str| json!({ "initial": case.text, "history": case.history.iter().map(|b| b.iter().map(|e| json!({"range": [e.range.start, e.range.end], "insert": e.text})).collect::<Vec<_>>()).collect::<Vec<_>>(), "current_text": text });
        // analysis terminates without panicking: new, errors, update
        let t0 = case.text.clone();
        let a = match catch(move || {
            let a = AnalyzedSource::new(t0);
            let _ = a.errors();
            a
        }) {
            Ok(a) => a,
            Err(sig) => {
                r.fail(format!("{}|analysis", sig), "analysing the document panics", detail(&case.text));
                return r;
            }
        };
        let mut invalid = !catch(|| a.errors().is_empty()).unwrap_or(true);
        // through the broker: open, change notifications with client positions
        let u = srv::default_uri();
        let mut srv = Srv::new(true);
        srv.open(&u, &case.text);
        let mut text = case.text.clone();
        let mut cur = a;
        for batch in &case.history {
            // library level
            let changes: Vec<TextChange> = batch.iter().map(|e| TextChange { range: e.range.clone(), text: e.text.clone() }).collect();
            let prev = cur.clone();
            match catch(move || {
                let n = prev.update(changes);
                let _ = n.errors();
                n
            }) {
                Ok(n) => cur = n,
                Err(sig) => {
                    r.fail(format!("{}|analysis", sig), "incremental re-analysis panics", detail(&text));
                    return r;
                }
            }
            // server level
            let mut t2 = text.clone();
            let mut lsp_changes = Vec::new();
            let mut ok = true;
            for e in batch {
                match to_change(&t2, e) {
                    Some(c) => {
                        lsp_changes.push(srv::change_event(c.range, &c.text));
                        t2.replace_range(e.range.clone(), &e.text);
                    }
                    None => {
                        ok = false;
                        break;
                    }
                }
            }
            if ok {
                srv.change(&u, lsp_changes);
                text = t2;
            } else {
                // an edit next to a CR/LF pair cannot be expressed as a position: re-open instead
                for e in batch {
                    text.replace_range(e.range.clone(), &e.text);
                }
                srv.open(&u, &text);
                r.excluded.push("edit-not-expressible-as-position".into());
            }
            if let Err(sig) = srv.settle() {
                r.fail(format!("{}|didChange", sig), "the document broker dies on a change notification", detail(&text));
                return r;
            }
            invalid = true;
        }
        if let Err(sig) = srv.settle() {
            r.fail(format!("{}|didOpen", sig), "the document broker dies on didOpen", detail(&text));
            return r;
        }
        // requests
        let n_pos = 3 + s.below(4);
        let mut outside = false;
        for _ in 0..n_pos {
            let (p, class) = gen_position(&mut s, &text);
            r.label(format!("position:{}", class));
            if class.contains("past") || class == "behind-token" {
                outside = true;
            }
            match request_all(&srv, &u, p, None) {
                Ok(n) => r.evals += n,
                Err((req, sig, what)) => {
                    let mut d = detail(&text);
                    d["position"] = json!([p.line, p.character]);
                    d["request"] = json!(req);
                    r.fail(format!("{}|{}", sig, req), format!("{} at {:?} ({}): {}", req, p, class, what), d);
                    return r;
                }
            }
        }
        r.evals = r.evals.max(1);
        r.nontrivial = invalid || outside;
        r
    }
    fn describe(&self, bytes: &[u8]) -> Value {
        let mut s = Src::new(bytes);
        let c = decode(&mut s);
        json!({ "stratum": c.stratum, "text": c.text, "history_batches": c.history.len() })
    }
}

/// the real binary: every request gets exactly one response with its id, the process lives until
/// `exit` and then leaves with status 0
pub struct Binary;

fn decode_session(bytes: &[u8]) -> (Vec<Value>, Vec<i64>, String) {
    let mut s = Src::new(bytes);
    let (mut stratum, mut text) = gen_doc(&mut s);
    // one session in 25 works on a document of 66-90 KiB (more than a pipe buffer holds), with
    // fewer requests (the handlers' position arithmetic is quadratic in the document size)
    let big = s.chance(1, 25);
    if big {
        // repeated VALID program text: repeating a damaged unit would pile up thousands of unclosed
        // braces, far beyond the nesting bound of the property's quantifier
        let cfg = GenCfg { max_decls: 6, budget: 200, ..GenCfg::default() };
        let unit = text::gen_valid_text(&mut s, &cfg, splgen::layout::Style::Spaced);
        text = unit.clone();
        stratum = "valid".to_string();
        let want = 66_000 + s.below(24_000);
        while text.len() < want {
            text.push('\n');
            text.push_str(&unit);
        }
        stratum = format!("{}-66KiB+", stratum);
    }
    let uri = "file:///w/c02.spl";
    let mut msgs = vec![session::request(1, "initialize", session::initialize_params(s.chance(1, 2))), session::notification("initialized", json!({}))];
    msgs.push(session::notification("textDocument/didOpen", json!({ "textDocument": { "uri": uri, "languageId": "spl", "version": 1, "text": text } })));
    let mut ids = vec![1i64];
    let mut id = 1;
    let mut version = 1i64;
    let n = if big { 5 + s.below(6) } else { 20 + s.below(40) };
    for _ in 0..n {
        if s.chance(1, 4) {
            // one notification with 1-3 content changes, each relative to its predecessor; one
            // change in eight has no range (replaces the whole document)
            let k = if s.chance(1, 3) { 2 + s.below(2) } else { 1 };
            let mut cc = Vec::new();
            for _ in 0..k {
                if s.chance(1, 8) {
                    let t = if s.chance(1, 2) { gen_doc(&mut s).1 } else { super::c08::gen_text(&mut s, 8) };
                    cc.push(json!({ "text": t }));
                    text = t;
                    continue;
                }
                let e = text::gen_edit(&mut s, &text, &text.clone());
                if let Some(c) = to_change(&text, &e) {
                    let (a, z) = c.range.unwrap();
                    cc.push(json!({ "range": { "start": { "line": a.line, "character": a.character }, "end": { "line": z.line, "character": z.character } }, "text": c.text }));
                    text.replace_range(e.range.clone(), &e.text);
                }
            }
            if !cc.is_empty() {
                msgs.push(session::notification("textDocument/didChange", json!({ "textDocument": { "uri": uri, "version": session::next_version(&mut version) }, "contentChanges": cc })));
            }
        } else {
            id += 1;
            ids.push(id);
            let m = SUPPORTED[s.below(SUPPORTED.len())];
            let (p, _) = gen_position(&mut s, &text);
            msgs.push(session::request(id, m, supported_params(m, uri, p.line, p.character)));
        }
    }
    id += 1;
    ids.push(id);
    msgs.push(session::request(id, "shutdown", Value::Null));
    msgs.push(session::notification("exit", Value::Null));
    (msgs, ids, stratum)
}

impl Check for Binary {
    fn part(&self) -> &'static str {
        "binary-sessions"
    }
    fn max_len(&self) -> usize {
        2500
    }
    fn shrink_iters(&self) -> u32 {
        300
    }
    fn run(&self, bytes: &[u8]) -> CaseResult {
        let (msgs, ids, stratum) = decode_session(bytes);
        let mut r = CaseResult::new(fnv(bytes));
        r.label(format!("stratum:{}", stratum));
        r.evals = ids.len() as u64;
        // two frames in five carry a Content-Type header before or after Content-Length (see c19::framed)
        let chunks: Vec<session::Chunk> = msgs.iter().map(|m| session::Chunk { bytes: super::c19::framed(m), sleep_before_ms: 0 }).collect();
        // the handlers' position arithmetic is quadratic in the document size: more time for the big documents
        let opts = RunOpts { close_stdin: true, timeout_ms: if stratum.ends_with("66KiB+") { 4 * WATCHDOG_MS } else { WATCHDOG_MS }, read_delay_ms: 0 };
        let mut o = session::run(&chunks, &opts);
        let mut tries = 1;
        while o.timed_out && tries < 3 {
            o = session::run(&chunks, &opts);
            tries += 1;
        }
        let detail = || {
            json!({
                "messages": msgs.iter().map(|m| m.to_string().chars().take(400).collect::<String>()).collect::<Vec<_>>(),
                "exit_code": o.exit_code, "stderr": o.stderr.chars().take(600).collect::<String>(),
            })
        };
        if o.timed_out {
            r.fail("watchdog", "the server does not terminate (3 attempts)", detail());
            return r;
        }
        if let Some(p) = &o.framing_problem {
            r.fail("malformed-output", p.clone(), detail());
        }
        let got: Vec<i64> = o.responses().iter().map(|x| x["id"].as_i64().unwrap_or(-1)).collect();
        if got != ids {
            let k = got.iter().zip(&ids).position(|(a, b)| a != b).unwrap_or(got.len().min(ids.len()));
            let unanswered = msgs.iter().find(|m| m.get("id").and_then(|i| i.as_i64()) == ids.get(k).copied()).map(|m| m["method"].as_str().unwrap_or("").to_string());
            let sig = if o.panicked() {
                let line = o.stderr.lines().find(|l| l.contains("Message:")).unwrap_or("").replace("\u{1b}[36m", "").replace("\u{1b}[0m", "");
                panic_sig("server", line.trim_start_matches("Message:").trim())
            } else {
                "request-unanswered".to_string()
            };
            r.fail(format!("{}|{}", sig, unanswered.clone().unwrap_or_default()), format!("{} of {} requests answered; the first unanswered request is {:?} (exit status {:?})", got.len(), ids.len(), unanswered, o.exit_code), detail());
            return r;
        }
        for resp in o.responses() {
            if resp.get("result").is_none() || resp.get("error").is_some() {
                r.fail("error-response", format!("request {} is answered with an error: {}", resp["id"], resp.to_string().chars().take(200).collect::<String>()), detail());
            }
        }
        if o.exit_code != Some(0) {
            r.fail("wrong-exit-status", format!("exit status {:?} after shutdown and exit", o.exit_code), detail());
        }
        r.nontrivial = stratum != "valid";
        r
    }
    fn describe(&self, bytes: &[u8]) -> Value {
        let (msgs, _, stratum) = decode_session(bytes);
        json!({ "stratum": stratum, "messages": msgs.iter().map(|m| m.to_string().chars().take(300).collect::<String>()).collect::<Vec<_>>() })
    }
}

pub fn checks() -> Vec<Box<dyn Check>> {
    vec![Box::new(InProcess), Box::new(Binary)]
}

pub fn run(ctx: &Ctx) -> i32 {
    let mut parts = vec![
        crate::corpus_part(ctx, &checks()),
        run_pbt(ctx, &InProcess, ctx.n(12_000, 250_000)),
        run_pbt(ctx, &Binary, ctx.n(1_500, 40_000)),
    ];
    if ctx.thorough() {
        parts.push(fuzz_part(ctx, "c02_handlers", &InProcess, 100_000, 2500));
    }
    finish(
        ctx,
        parts,
        "documents of all strata (valid programs incl. a deep-nesting stratum up to depth 22 and explicitly nested parentheses / blocks / array accesses / ifs / negations of depth 20-60, damaged programs, token soup with unterminated literals, arbitrary Unicode, CRLF, unterminated comments / ticks, empty) with optional edit histories; in process: AnalyzedSource::new / update / errors and the document broker must not panic, then all 13 handlers at 3-6 positions (token start / inside / last character / just past / behind, anywhere, origin, column past the end of a line, line past the end of the text) must neither panic nor return an error; against the real binary: sessions of 20-60 messages (didChange notifications with 1-3 content changes, one change in eight range-less, and the 13 requests at such positions; two frames in five with a Content-Type header before or after Content-Length): one response with the request's id and a result per request, in order, strict frames, alive until exit, status 0; non-trivial = the document has diagnostics / was edited or a position lies outside the text; evaluations = handler calls resp. requests",
        &[
            "nesting stays below the bound at which the 2 MB worker stack overflows (about 100-200 levels in release): outside the property's quantifier",
            "request params are well-formed and ids are integers",
            "edits whose ends fall between CR and LF cannot be sent as positions; the document is re-opened instead (counted)",
        ],
        json!({}),
    )
}

//! C12 Go-to declaration/definition/type definition/implementation hit the right name.

use super::nav::{self, World};
use crate::driver::*;
use lsp_types::Location;
use serde_json::{json, Value};
use splgen::layout::Style;
use splgen::lsp::{self, Pos};
use splgen::prog::*;
use splgen::render::Role;
use splgen::src::{fnv, Src};

const STYLES: [Style; 4] = [Style::Commented, Style::Spaced, Style::LeadingComments, Style::Plain];

pub fn expected_declaration(w: &World, i: usize) -> Option<usize> {
    match w.bind_of(i)? {
        b @ (Bind::Type(_) | Bind::Proc(_) | Bind::Param(..) | Bind::Local(..)) => w.decl_tok.get(&b).copied(),
        _ => None,
    }
}

pub fn expected_implementation(w: &World, i: usize) -> Option<usize> {
    match w.bind_of(i)? {
        b @ Bind::Proc(_) => w.decl_tok.get(&b).copied(),
        _ => None,
    }
}

pub fn expected_type_definition(w: &World, i: usize) -> Option<usize> {
    match w.bind_of(i)? {
        b @ Bind::Type(_) => w.decl_tok.get(&b).copied(),
        Bind::Param(j, k) => creator_decl(w, &w.prog.procs[j].params[k].ty),
        Bind::Local(j, k) => creator_decl(w, &w.prog.procs[j].locals[k].ty),
        _ => None,
    }
}

fn creator_decl(w: &World, ty: &Ty) -> Option<usize> {
    let name = ty.declared_creator()?;
    let idx = w.prog.types.iter().position(|t| t.name == name)?;
    w.decl_tok.get(&Bind::Type(idx)).copied()
}

pub fn role_class(w: &World, i: usize) -> &'static str {
    match &w.tok(i).role {
        Role::Decl(Bind::Type(_)) => "decl-type",
        Role::Decl(Bind::Proc(_)) => "decl-proc",
        Role::Decl(Bind::Param(..)) => "decl-param",
        Role::Decl(Bind::Local(..)) => "decl-local",
        Role::Use(Bind::Type(_)) => "use-type",
        Role::Use(Bind::Proc(_)) => "use-proc",
        Role::Use(Bind::Param(..)) => "use-param",
        Role::Use(Bind::Local(..)) => "use-local",
        Role::Use(Bind::BuiltinProc(_)) => "use-predefined-proc",
        Role::Use(Bind::BuiltinInt) => "use-int",
        _ => "other",
    }
}

fn compare(w: &World, i: usize, request: &'static str, got: nav::HandlerResult<Option<Location>>, want: Option<usize>, r: &mut CaseResult, cursor: Pos) {
    let ambiguous = w.ambiguous_name(i);
    let detail = || json!({ "text": w.text(), "token": w.tok(i).text, "token_index": i, "cursor": [cursor.line, cursor.character], "role": format!("{:?}", w.tok(i).role) });
    match got {
        Err((sig, what)) => r.fail(format!("{}|{}", sig, request), format!("{} on `{}`: {}", request, w.tok(i).text, what), detail()),
        Ok(loc) => {
            let got_bytes = loc.as_ref().map(|l| w.bytes_of(&l.range));
            let want_bytes = want.map(|d| w.laid.ranges[d].clone());
            let uri_ok = loc.as_ref().map_or(true, |l| l.uri == w.uri);
            if got_bytes != want_bytes || !uri_ok {
                let what = format!(
                    "{} on `{}` ({}) at {:?}: got {:?} {:?}, the bound declaration's name is {:?} {:?}",
                    request,
                    w.tok(i).text,
                    role_class(w, i),
                    cursor,
                    got_bytes,
                    got_bytes.as_ref().and_then(|b| w.text().get(b.clone())),
                    want_bytes,
                    want_bytes.as_ref().map(|b| &w.text()[b.clone()])
                );
                if ambiguous {
                    // the signature names request, occurrence class and what was wanted / returned, so
                    // that only the recorded manifestations of the recorded root cause are tolerated
                    let kind = |b: &Option<std::ops::Range<usize>>| match b {
                        None => "none",
                        Some(b) => match w.laid.ranges.iter().position(|r0| r0 == b).map(|t| &w.tok(t).role) {
                            Some(Role::Decl(Bind::Param(..))) | Some(Role::Decl(Bind::Local(..))) => "local-declaration",
                            Some(Role::Decl(Bind::Type(_))) | Some(Role::Decl(Bind::Proc(_))) => "global-declaration",
                            _ => "elsewhere",
                        },
                    };
                    let sig = format!("name-denotes-global-and-local|{}|{}|want:{}|got:{}", request, role_class(w, i), kind(&want_bytes), kind(&got_bytes));
                    // a recorded finding only if the answer is exactly the recorded baseline's
                    let method = match request {
                        "declaration" => "textDocument/declaration",
                        "definition" => "textDocument/definition",
                        "implementation" => "textDocument/implementation",
                        _ => "textDocument/typeDefinition",
                    };
                    let agrees = crate::pinned_lsp::baseline_agrees_on(method, &w.uri, w.text(), crate::pinned_lsp::position_params(method, &w.uri, cursor.line, cursor.character), &serde_json::to_value(&loc).unwrap_or(Value::Null), crate::pinned_lsp::ranges_of);
                    r.fail(crate::pinned_lsp::triage(sig, agrees), what, detail());
                } else {
                    r.fail(format!("wrong-{}|{}", request, role_class(w, i)), what, detail());
                }
            } else if ambiguous {
                r.label("ambiguous-name-answered-correctly");
            }
        }
    }
}

pub struct Goto;

fn world(bytes: &[u8]) -> (World, Src<'_>) {
    let mut s = Src::new(bytes);
    let cfg = GenCfg { max_decls: 8, budget: 160, ..GenCfg::default() };
    let w = nav::build_world(&mut s, &cfg, &STYLES);
    (w, s)
}

impl Check for Goto {
    fn part(&self) -> &'static str {
        "goto-on-identifiers"
    }
    fn max_len(&self) -> usize {
        2500
    }
    fn run(&self, bytes: &[u8]) -> CaseResult {
        let (w, mut s) = world(bytes);
        let mut r = CaseResult::new(fnv(w.text().as_bytes()));
        r.evals = 0;
        let idents = w.ident_tokens(&mut s, 14);
        let mut cross = false;
        for &i in &idents {
            let offs = w.cursor_offsets(i);
            let off = offs[s.below(offs.len())];
            let p = w.pos_at(off);
            r.evals += 4;
            let want = expected_declaration(&w, i);
            compare(&w, i, "declaration", nav::declaration(&w, p), want, &mut r, p);
            compare(&w, i, "definition", nav::definition(&w, p), want, &mut r, p);
            compare(&w, i, "implementation", nav::implementation(&w, p), expected_implementation(&w, i), &mut r, p);
            compare(&w, i, "type-definition", nav::type_definition(&w, p), expected_type_definition(&w, i), &mut r, p);
            r.label(role_class(&w, i));
            if let Some(d) = want {
                if w.tok(d).decl != w.tok(i).decl || !w.laid.gap_comments[d].is_empty() {
                    cross = true;
                }
            }
            if !r.failures.is_empty() && r.failures.iter().any(|f| !f.sig.starts_with("name-denotes-global-and-local")) {
                break;
            }
        }
        r.evals = r.evals.max(1);
        r.nontrivial = cross;
        r
    }
    fn describe(&self, bytes: &[u8]) -> Value {
        json!({ "text": world(bytes).0.text() })
    }
}

/// positions that are not on an identifier: other tokens, comments, whitespace, past the end of a
/// line, past the end of the text: no location, never an error
pub struct Elsewhere;

impl Check for Elsewhere {
    fn part(&self) -> &'static str {
        "goto-elsewhere"
    }
    fn max_len(&self) -> usize {
        2500
    }
    fn run(&self, bytes: &[u8]) -> CaseResult {
        let (w, mut s) = world(bytes);
        let mut r = CaseResult::new(fnv(w.text().as_bytes()) ^ 0x5555);
        r.evals = 0;
        let text = w.text();
        let mut positions: Vec<(Pos, &'static str)> = Vec::new();
        // non-identifier tokens
        let others: Vec<usize> = (0..w.rendered.toks.len()).filter(|i| w.bind_of(*i).is_none()).collect();
        for _ in 0..4 {
            if !others.is_empty() {
                let i = others[s.below(others.len())];
                positions.push((w.pos_at(w.laid.ranges[i].start), "non-identifier-token"));
            }
        }
        // comments
        for gc in w.laid.gap_comments.iter().flatten().take(2) {
            positions.push((w.pos_at(gc.1.start + 1), "comment"));
        }
        // whitespace: a byte that belongs to no token or comment
        let mut covered = vec![false; text.len() + 1];
        for r0 in w.laid.ranges.iter().chain(w.laid.gap_comments.iter().flatten().map(|(_, r0)| r0)) {
            for b in r0.clone() {
                covered[b] = true;
            }
        }
        let ws: Vec<usize> = (0..text.len()).filter(|o| !covered[*o] && lsp::expressible(text, *o) && text.as_bytes()[*o] == b' ' && (*o == 0 || !covered[*o - 1] || true)).collect();
        // only whitespace that does not directly follow an identifier character counts as "on nothing"
        let ws: Vec<usize> = ws.into_iter().filter(|o| *o > 0 && !covered[*o - 1]).collect();
        for _ in 0..2 {
            if !ws.is_empty() {
                positions.push((w.pos_at(ws[s.below(ws.len())]), "whitespace"));
            }
        }
        let lines = lsp::lines(text);
        let l = s.below(lines.len());
        let width: usize = text[lines[l].clone()].chars().map(|c| c.len_utf16()).sum();
        // past the end of a line that does not end in an identifier
        if !lines[l].is_empty() && !text[lines[l].clone()].ends_with(|c: char| c.is_ascii_alphanumeric() || c == '_') {
            positions.push((Pos { line: l as u32, character: (width + 3) as u32 }, "past-end-of-line"));
        }
        positions.push((Pos { line: lines.len() as u32 + 2, character: 0 }, "past-end-of-text"));
        for (p, class) in positions {
            r.evals += 4;
            r.label(class);
            let results = [
                ("declaration", nav::declaration(&w, p)),
                ("definition", nav::definition(&w, p)),
                ("implementation", nav::implementation(&w, p)),
                ("type-definition", nav::type_definition(&w, p)),
            ];
            for (name, res) in results {
                match res {
                    Err((sig, what)) => r.fail(format!("{}|{}", sig, name), format!("{} at a {} position: {}", name, class, what), json!({ "text": text, "cursor": [p.line, p.character] })),
                    Ok(Some(l)) => r.fail(
                        format!("location-for-{}", class),
                        format!("{} at {:?} ({}) returns the location {:?}", name, p, class, l.range),
                        json!({ "text": text, "cursor": [p.line, p.character] }),
                    ),
                    Ok(None) => {}
                }
            }
        }
        r.evals = r.evals.max(1);
        r.nontrivial = true;
        r
    }
    fn describe(&self, bytes: &[u8]) -> Value {
        json!({ "text": world(bytes).0.text() })
    }
}

pub const E2E: super::e2e::EndToEnd = super::e2e::EndToEnd { part: "end-to-end-binary-vs-handler", methods: &["textDocument/declaration", "textDocument/definition", "textDocument/implementation", "textDocument/typeDefinition"] };

pub fn checks() -> Vec<Box<dyn Check>> {
    vec![Box::new(Goto), Box::new(Elsewhere), Box::new(E2E)]
}

pub fn run(ctx: &Ctx) -> i32 {
    let mut parts = vec![
        crate::corpus_part(ctx, &checks()),
        run_pbt(ctx, &Goto, ctx.n(20_000, 300_000)),
        run_pbt(ctx, &Elsewhere, ctx.n(6_000, 100_000)),
    ];
    parts.push(run_pbt(ctx, &E2E, ctx.n(400, 8_000)));
    finish(
        ctx,
        parts,
        "well-typed programs (up to 8 declarations, aliases, anonymous arrays, locals that shadow globals, doc comments, comments in front of identifiers, any layout); up to 14 identifier occurrences per program x a cursor on the first, an interior or the last character x the four go-to requests, compared with the binding known by construction (declaration/definition: name token of the bound declaration; implementation: procedures only; type definition: the declaration named by a type identifier, or the declaration that created a variable's array type through aliases; null for predefined entities, int, anonymous arrays); plus non-identifier tokens, comments, whitespace, positions past the end of a line / of the text (no location, no error); non-trivial = target in another declaration than the cursor or with comments in front of it; evaluations = requests; distinct = distinct text",
        &[
            "occurrences whose spelling is both a parameter/local of the enclosing procedure and a global entity form the recorded class name-denotes-global-and-local; all other occurrences must be exact",
            "the cursor position directly behind an identifier is not generated (the statement speaks of columns inside the identifier)",
        ],
        json!({}),
    )
}

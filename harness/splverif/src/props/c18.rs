//! C18 JSON-RPC/LSP lifecycle conformance and clean termination.

use crate::driver::*;
use crate::session::{self, Chunk, Outcome, RunOpts};
use serde_json::{json, Value};
use splgen::src::{fnv, Src};

pub const SUPPORTED: [&str; 13] = [
    "textDocument/declaration",
    "textDocument/definition",
    "textDocument/implementation",
    "textDocument/typeDefinition",
    "textDocument/references",
    "textDocument/hover",
    "textDocument/rename",
    "textDocument/prepareRename",
    "textDocument/completion",
    "textDocument/foldingRange",
    "textDocument/semanticTokens/full",
    "textDocument/signatureHelp",
    "textDocument/formatting",
];

pub const DOC_TEXT: &str = "// demo\nproc main() {\n  var i: int;\n  i := 1;\n  printi(i);\n}\n";

#[derive(Clone, Copy, Debug, PartialEq, Eq)]
pub enum Sym {
    Initialize,
    Initialized,
    Supported,
    UnknownRequest,
    /// an unknown request in the protocol-reserved `$/` namespace
    DollarRequest,
    DocNotification,
    UnknownNotification,
    Shutdown,
    Exit,
}

pub const SYMS: [Sym; 9] = [Sym::Initialize, Sym::Initialized, Sym::Supported, Sym::UnknownRequest, Sym::DollarRequest, Sym::DocNotification, Sym::UnknownNotification, Sym::Shutdown, Sym::Exit];

/// well-formed params for one of the 13 supported requests
pub fn supported_params(method: &str, uri: &str, line: u32, character: u32) -> Value {
    let td = json!({ "uri": uri });
    let pos = json!({ "line": line, "character": character });
    match method {
        "textDocument/references" => json!({ "textDocument": td, "position": pos, "context": { "includeDeclaration": true } }),
        "textDocument/rename" => json!({ "textDocument": td, "position": pos, "newName": "renamed" }),
        "textDocument/foldingRange" | "textDocument/semanticTokens/full" => json!({ "textDocument": td }),
        "textDocument/formatting" => json!({ "textDocument": td, "options": { "tabSize": 4, "insertSpaces": true } }),
        _ => json!({ "textDocument": td, "position": pos }),
    }
}

#[derive(Clone, Debug, PartialEq)]
pub enum Expect {
    Result,
    ResultNull,
    Error(Vec<i64>),
}

#[derive(Clone, Debug)]
pub struct Message {
    pub sym: Sym,
    pub json: Value,
    pub id: Option<i64>,
}

pub fn build_message(sym: Sym, id: i64, s: &mut Src) -> Message {
    let uri = "file:///work/a.spl";
    match sym {
        Sym::Initialize => Message { sym, json: session::request(id, "initialize", session::initialize_params(s.chance(1, 2))), id: Some(id) },
        Sym::Initialized => Message { sym, json: session::notification("initialized", json!({})), id: None },
        Sym::Supported => {
            let m = SUPPORTED[s.below(SUPPORTED.len())];
            Message { sym, json: session::request(id, m, supported_params(m, uri, s.below(7) as u32, s.below(12) as u32)), id: Some(id) }
        }
        Sym::UnknownRequest => Message { sym, json: session::request(id, *s.pick(&["workspace/symbol", "foo/bar", "textDocument/documentColor", "$/unknownRequest"]), json!({})), id: Some(id) },
        Sym::DollarRequest => Message { sym, json: session::request(id, "$/unknownRequest", json!({})), id: Some(id) },
        Sym::DocNotification => {
            let j = match s.below(3) {
                0 => session::notification("textDocument/didOpen", json!({ "textDocument": { "uri": uri, "languageId": "spl", "version": 1, "text": DOC_TEXT } })),
                1 => session::notification(
                    "textDocument/didChange",
                    json!({ "textDocument": { "uri": uri, "version": 2 }, "contentChanges": [{ "range": { "start": { "line": 3, "character": 7 }, "end": { "line": 3, "character": 8 } }, "text": "2" }] }),
                ),
                _ => session::notification("textDocument/didClose", json!({ "textDocument": { "uri": uri } })),
            };
            Message { sym, json: j, id: None }
        }
        Sym::UnknownNotification => Message { sym, json: session::notification(*s.pick(&["$/cancelRequest", "workspace/didChangeConfiguration", "$/setTrace"]), json!({ "id": 1 })), id: None },
        Sym::Shutdown => Message { sym, json: session::request(id, "shutdown", Value::Null), id: Some(id) },
        Sym::Exit => Message { sym, json: session::notification("exit", Value::Null), id: None },
    }
}

#[derive(Clone, Copy, Debug, PartialEq, Eq)]
enum Phase {
    Pre,
    Window,
    Main,
    Shut,
    Exited(i32),
}

/// R5: expected responses (in order) and exit status; `None` status = the stream simply ends
pub fn model(msgs: &[Message]) -> (Vec<(i64, Expect)>, Option<i32>, bool, bool) {
    let mut phase = Phase::Pre;
    let mut out = Vec::new();
    let mut reached_main = false;
    let mut interesting = false;
    for m in msgs {
        if let Phase::Exited(_) = phase {
            break;
        }
        match (phase, m.sym, m.id) {
            (Phase::Pre, Sym::Initialize, Some(id)) => {
                out.push((id, Expect::Result));
                phase = Phase::Window;
            }
            (Phase::Pre, _, Some(id)) => out.push((id, Expect::Error(vec![-32002]))),
            (Phase::Pre, Sym::Exit, None) => phase = Phase::Exited(1),
            (Phase::Pre, _, None) => {}
            // between `initialize` and `initialized` the statement fixes no code: rejected either way
            (Phase::Window, _, Some(id)) => out.push((id, Expect::Error(vec![-32002, -32600]))),
            (Phase::Window, Sym::Initialized, None) => {
                phase = Phase::Main;
                reached_main = true;
            }
            (Phase::Window, Sym::Exit, None) => phase = Phase::Exited(1),
            (Phase::Window, _, None) => {}
            (Phase::Main, Sym::Initialize, Some(id)) => {
                out.push((id, Expect::Error(vec![-32600])));
                interesting = true;
            }
            (Phase::Main, Sym::Shutdown, Some(id)) => {
                out.push((id, Expect::ResultNull));
                phase = Phase::Shut;
            }
            (Phase::Main, Sym::Supported, Some(id)) => out.push((id, Expect::Result)),
            (Phase::Main, Sym::UnknownRequest | Sym::DollarRequest, Some(id)) => out.push((id, Expect::Error(vec![-32601]))),
            (Phase::Main, Sym::Exit, None) => phase = Phase::Exited(1),
            (Phase::Main, _, _) => {}
            (Phase::Shut, _, Some(id)) => {
                out.push((id, Expect::Error(vec![-32600])));
                interesting = true;
            }
            (Phase::Shut, Sym::Exit, None) => phase = Phase::Exited(0),
            (Phase::Shut, _, None) => {}
            (Phase::Exited(_), _, _) => {}
        }
    }
    let status = if let Phase::Exited(c) = phase { Some(c) } else { None };
    (out, status, reached_main, interesting)
}

pub fn decode_session(bytes: &[u8], explicit_len: Option<usize>) -> Vec<Message> {
    let mut s = Src::new(bytes);
    let n = explicit_len.unwrap_or_else(|| 1 + s.below(14));
    // bias towards sessions that get through initialization
    let proper_start = explicit_len.is_none() && s.chance(3, 4);
    let mut msgs = Vec::new();
    // request ids: usually counting from 1; sometimes from 0, from a negative number or close to
    // the largest id the server's `i32` can hold
    let mut id = if explicit_len.is_none() && s.chance(1, 6) { *s.pick(&[0i64, -7, 2147483000, 65535, 1000000]) } else { 1i64 };
    if proper_start {
        msgs.push(build_message(Sym::Initialize, id, &mut s));
        id += 1;
        msgs.push(build_message(Sym::Initialized, id, &mut s));
    }
    if proper_start && s.chance(1, 8) {
        // long phases: up to 40 messages in the main phase, shutdown, 32-70 further messages, exit
        let body = [Sym::Supported, Sym::UnknownRequest, Sym::DollarRequest, Sym::DocNotification, Sym::UnknownNotification, Sym::Initialize];
        let mut push = |sym: Sym, id: &mut i64, s: &mut Src, msgs: &mut Vec<Message>| {
            let m = build_message(sym, *id, s);
            if m.id.is_some() {
                *id += 1;
            }
            msgs.push(m);
        };
        for _ in 0..s.below(41) {
            let sym = body[s.below(body.len())];
            push(sym, &mut id, &mut s, &mut msgs);
        }
        push(Sym::Shutdown, &mut id, &mut s, &mut msgs);
        for _ in 0..32 + s.below(39) {
            let sym = body[s.below(body.len())];
            push(sym, &mut id, &mut s, &mut msgs);
        }
        if s.chance(3, 4) {
            push(Sym::Exit, &mut id, &mut s, &mut msgs);
        }
        return msgs;
    }
    for _ in 0..n {
        let sym = SYMS[s.below(SYMS.len())];
        let m = build_message(sym, id, &mut s);
        if m.id.is_some() {
            id += s.range(1, 3) as i64;
        }
        msgs.push(m);
    }
    msgs
}

fn describe_msgs(msgs: &[Message]) -> Value {
    json!(msgs.iter().map(|m| match m.id {
        Some(id) => format!("{:?}#{} {}", m.sym, id, m.json["method"].as_str().unwrap_or("")),
        None => format!("{:?} {}", m.sym, m.json["method"].as_str().unwrap_or("")),
    }).collect::<Vec<_>>())
}

pub const WATCHDOG_MS: u64 = 20_000;

/// compare the responses of a finished run with the model's; returns a failure description
pub fn compare_responses(o: &Outcome, expected: &[(i64, Expect)]) -> Option<(String, String)> {
    if let Some(p) = &o.framing_problem {
        return Some(("malformed-output".into(), p.clone()));
    }
    let got = o.responses();
    let got_ids: Vec<i64> = got.iter().map(|r| r["id"].as_i64().unwrap_or(i64::MIN)).collect();
    let want_ids: Vec<i64> = expected.iter().map(|(i, _)| *i).collect();
    if got_ids != want_ids {
        return Some(("wrong-response-sequence".into(), format!("responses carry the ids {:?}; one response per request in request order would be {:?}", got_ids, want_ids)));
    }
    for (r, (id, e)) in got.iter().zip(expected) {
        let has_result = r.get("result").is_some();
        let code = r.get("error").and_then(|e| e.get("code")).and_then(|c| c.as_i64());
        let ok = match e {
            Expect::Result => has_result && code.is_none(),
            Expect::ResultNull => has_result && r["result"].is_null() && code.is_none(),
            Expect::Error(codes) => !has_result && code.map_or(false, |c| codes.contains(&c)),
        };
        if r.get("jsonrpc").and_then(|v| v.as_str()) != Some("2.0") {
            return Some(("malformed-response".into(), format!("response to request {} lacks jsonrpc 2.0: {}", id, r)));
        }
        if !ok {
            return Some(("wrong-response-class".into(), format!("request {} expected {:?}, got {}", id, e, clip(&r.to_string()))));
        }
    }
    None
}

fn clip(s: &str) -> String {
    s.chars().take(300).collect()
}

pub struct Lifecycle {
    pub explicit: bool,
}

impl Lifecycle {
    fn msgs(&self, bytes: &[u8]) -> Vec<Message> {
        if self.explicit {
            // explicit: every byte selects one symbol
            let mut s = Src::new(&[]);
            let mut id = 1;
            bytes
                .iter()
                .map(|b| {
                    let m = build_message(SYMS[(*b as usize * SYMS.len()) >> 8], id, &mut s);
                    if m.id.is_some() {
                        id += 1;
                    }
                    m
                })
                .collect()
        } else {
            decode_session(bytes, None)
        }
    }
}

impl Check for Lifecycle {
    fn part(&self) -> &'static str {
        if self.explicit {
            "all-short-sessions"
        } else {
            "random-sessions"
        }
    }
    fn max_len(&self) -> usize {
        if self.explicit {
            6
        } else {
            120
        }
    }
    fn run(&self, bytes: &[u8]) -> CaseResult {
        let msgs = self.msgs(bytes);
        let (expected, status, reached_main, interesting) = model(&msgs);
        let mut r = CaseResult::new(fnv(format!("{:?}", describe_msgs(&msgs)).as_bytes()));
        // framing: one write per message or one write for all; in random sessions two frames in
        // five carry a Content-Type header (before or after Content-Length)
        let frames: Vec<Vec<u8>> = msgs.iter().map(|m| if self.explicit { session::frame(&m.json) } else { super::c19::framed(&m.json) }).collect();
        let chunks: Vec<Chunk> = if bytes.first().map_or(false, |b| b % 2 == 0) {
            frames.into_iter().map(|f| Chunk { bytes: f, sleep_before_ms: 0 }).collect()
        } else {
            vec![Chunk { bytes: frames.concat(), sleep_before_ms: 0 }]
        };
        // when the session contains an `exit` the server acts on, the client's end of the pipe
        // stays open in half of the cases: `exit` alone must end the process
        let keep_open = status.is_some() && fnv(bytes) % 2 == 1;
        let opts = RunOpts { close_stdin: !keep_open, timeout_ms: WATCHDOG_MS, read_delay_ms: 0 };
        let mut o = session::run(&chunks, &opts);
        let mut tries = 1;
        while o.timed_out && tries < 3 {
            o = session::run(&chunks, &opts);
            tries += 1;
        }
        let detail = |o: &Outcome| json!({ "session": describe_msgs(&msgs), "exit_code": o.exit_code, "stderr": clip(&o.stderr), "responses": o.responses().iter().map(|r| clip(&r.to_string())).collect::<Vec<_>>() });
        if o.timed_out {
            let what = if keep_open { "after `exit` while the client keeps its end of the pipe open" } else { "after the end of its input" };
            r.fail(if keep_open { "does-not-terminate-on-exit" } else { "does-not-terminate" }, format!("the server is still running {} ms {} (3 attempts)", WATCHDOG_MS, what), detail(&o));
            return r;
        }
        if let Some((sig, what)) = compare_responses(&o, &expected) {
            r.fail(sig, what, detail(&o));
        }
        match status {
            Some(code) => {
                if o.exit_code != Some(code) {
                    r.fail("wrong-exit-status", format!("exit status {:?}, expected {} ({})", o.exit_code, code, if code == 0 { "exit after shutdown" } else { "exit without shutdown" }), detail(&o));
                }
            }
            None => {
                // the stream just ends: the process must be gone (it is); a panic is not clean
                if o.panicked() {
                    r.fail("panic-at-end-of-input", "the server panics when its input ends", detail(&o));
                }
            }
        }
        r.nontrivial = reached_main && interesting;
        if reached_main {
            r.label("reaches-main-phase");
        }
        if keep_open {
            r.label("stdin-kept-open-after-exit");
        }
        if status.is_some() {
            r.label(format!("exit:{}", status.unwrap()));
        } else {
            r.label("ends-with-eof");
        }
        r
    }
    fn describe(&self, bytes: &[u8]) -> Value {
        describe_msgs(&self.msgs(bytes))
    }
}

/// End of input after every byte prefix of a session.
pub struct Prefixes;

fn decode_prefix(bytes: &[u8]) -> (Vec<Message>, Vec<u8>, usize) {
    let mut s = Src::new(bytes);
    let cut_sel = ((s.byte() as usize) << 8) | s.byte() as usize;
    let msgs = decode_session(&bytes[bytes.len().min(2)..], None);
    let stream: Vec<u8> = msgs.iter().flat_map(|m| session::frame(&m.json)).collect();
    let cut = (cut_sel * (stream.len() + 1)) >> 16;
    (msgs, stream, cut)
}

impl Check for Prefixes {
    fn part(&self) -> &'static str {
        "end-of-input-at-byte-prefixes"
    }
    fn max_len(&self) -> usize {
        120
    }
    fn run(&self, bytes: &[u8]) -> CaseResult {
        let (msgs, stream, cut) = decode_prefix(bytes);
        let mut r = CaseResult::new(fnv(&stream[..cut]) ^ cut as u64);
        // messages whose frames are complete within the prefix
        let mut complete = 0;
        let mut at = 0;
        for m in &msgs {
            at += session::frame(&m.json).len();
            if at <= cut {
                complete += 1;
            }
        }
        let (expected, status, _, _) = model(&msgs[..complete]);
        let chunks = vec![Chunk { bytes: stream[..cut].to_vec(), sleep_before_ms: 0 }];
        let mut o = session::run(&chunks, &RunOpts::default());
        let mut tries = 1;
        while o.timed_out && tries < 3 {
            o = session::run(&chunks, &RunOpts::default());
            tries += 1;
        }
        let mid_frame = at_boundary(&msgs, cut).is_none();
        let detail = |o: &Outcome| json!({ "session": describe_msgs(&msgs), "cut_after_bytes": cut, "stream_len": stream.len(), "complete_messages": complete, "exit_code": o.exit_code, "stderr": clip(&o.stderr), "responses": o.responses().iter().map(|r| clip(&r.to_string())).collect::<Vec<_>>() });
        if o.timed_out {
            r.fail("hangs-at-end-of-input", format!("the server is still running {} ms after its input ended {}", WATCHDOG_MS, if mid_frame { "in the middle of a frame" } else { "at a message boundary" }), detail(&o));
            return r;
        }
        if let Some((sig, what)) = compare_responses(&o, &expected) {
            r.fail(format!("{}|eof", sig), what, detail(&o));
        }
        if let Some(code) = status {
            if o.exit_code != Some(code) {
                r.fail("wrong-exit-status", format!("exit status {:?}, expected {}", o.exit_code, code), detail(&o));
            }
        }
        r.nontrivial = complete >= 3;
        r.label(if mid_frame { "cut-inside-frame" } else { "cut-at-boundary" });
        r
    }
    fn describe(&self, bytes: &[u8]) -> Value {
        let (msgs, stream, cut) = decode_prefix(bytes);
        json!({ "session": describe_msgs(&msgs), "cut_after_bytes": cut, "stream_len": stream.len() })
    }
}

fn at_boundary(msgs: &[Message], cut: usize) -> Option<usize> {
    let mut at = 0;
    if cut == 0 {
        return Some(0);
    }
    for (i, m) in msgs.iter().enumerate() {
        at += session::frame(&m.json).len();
        if at == cut {
            return Some(i + 1);
        }
    }
    None
}

pub fn enumerate(max_len: usize) -> Vec<Vec<u8>> {
    let n = SYMS.len();
    let mut out = Vec::new();
    let mut frontier: Vec<Vec<u8>> = vec![vec![]];
    for _ in 0..max_len {
        let mut next = Vec::new();
        for f in &frontier {
            for i in 0..n {
                let mut v = f.clone();
                v.push(byte_for(i, n));
                next.push(v);
            }
        }
        out.extend(next.iter().cloned());
        frontier = next;
    }
    out
}

pub fn checks() -> Vec<Box<dyn Check>> {
    vec![Box::new(Lifecycle { explicit: false }), Box::new(Lifecycle { explicit: true }), Box::new(Prefixes)]
}

pub fn run(ctx: &Ctx) -> i32 {
    let explicit = Lifecycle { explicit: true };
    let random = Lifecycle { explicit: false };
    let parts = vec![
        crate::corpus_part(ctx, &checks()),
        run_list(ctx, &explicit, "all-short-sessions", &enumerate(if ctx.thorough() { 4 } else { 3 }), true),
        run_pbt(ctx, &random, ctx.n(2_500, 50_000)),
        run_pbt(ctx, &Prefixes, ctx.n(6_000, 150_000)),
    ];
    let code = finish(
        ctx,
        parts,
        "sessions over {initialize, initialized, one of the 13 supported requests with well-formed params, unknown request, didOpen/didChange/didClose, unknown notification, shutdown, exit} run against the real release binary: all sessions up to length 3 (thorough: 4) exhaustively, random sessions of up to 16 messages (three quarters start with initialize+initialized), written message-wise or in one write, stdin closed at the end; oracle = lifecycle state machine (one response per request, in order, result / error code as stated, exit status 0 after shutdown and 1 otherwise) and termination within the watchdog; plus end of input after a random byte prefix of a session: the process terminates and has answered exactly the requests whose frames were complete; non-trivial = the session reaches the main phase and contains a second initialize or a request after shutdown (sessions), at least 3 complete messages (prefixes); distinct = distinct session / (prefix, cut)",
        &[
            "request ids are integers (the server's id type); string ids are outside the generated domain",
            "requests between `initialize` and `initialized` must be rejected with ServerNotInitialized or InvalidRequest (the statement fixes no code for that window)",
            "termination is judged against a 20 s watchdog after three attempts",
        ],
        json!({}),
    );
    code
}

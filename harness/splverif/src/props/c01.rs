//! C01 Incremental re-analysis equals analysis from scratch.

use crate::driver::*;
use crate::srv::{self, Srv};
use serde_json::{json, Value};
use spl_frontend::error::ErrorMessage;
use spl_frontend::{AnalyzedSource, ErrorContainer, TextChange, ToTextRange};
use splgen::lsp;
use splgen::prog::GenCfg;
use splgen::src::{fnv, Src};
use splgen::text::{self, Edit};

pub struct Case {
    pub stratum: String,
    pub initial: String,
    pub history: Vec<Vec<Edit>>,
}

pub fn decode(bytes: &[u8]) -> Case {
    let mut s = Src::new(bytes);
    let cfg = GenCfg { max_decls: 6, budget: 160, ..GenCfg::default() };
    let (stratum, initial) = text::gen_document(&mut s, &cfg);
    let history = text::gen_history(&mut s, &initial, 8);
    Case { stratum: stratum.name().to_string(), initial, history }
}

fn is_syntactically_valid(a: &AnalyzedSource) -> bool {
    a.errors().iter().all(|e| !matches!(e.1, ErrorMessage::LexErrorMessage(_) | ErrorMessage::ParseErrorMessage(_)))
}

/// first component in which the incrementally updated analysis differs from a fresh one
pub fn difference(upd: &AnalyzedSource, fresh: &AnalyzedSource) -> Option<(&'static str, String)> {
    if upd.text != fresh.text {
        return Some(("text", format!("text {:?} vs {:?}", upd.text, fresh.text)));
    }
    if upd.tokens != fresh.tokens {
        let i = upd.tokens.iter().zip(&fresh.tokens).position(|(a, b)| a != b).unwrap_or(upd.tokens.len().min(fresh.tokens.len()));
        return Some(("tokens", format!("token {}: {:?} vs {:?}", i, upd.tokens.get(i), fresh.tokens.get(i))));
    }
    if upd.ast != fresh.ast {
        let a = crate::walk::program(&upd.ast);
        let b = crate::walk::program(&fresh.ast);
        let what = if a.sexpr() != b.sexpr() {
            format!("tree shape: incremental {} / fresh {}", clip(&a.sexpr()), clip(&b.sexpr()))
        } else if a != b {
            "same shape, different node ranges or diagnostic counts".to_string()
        } else {
            "same shape and ranges, different attached diagnostics or reference offsets".to_string()
        };
        return Some(("ast", what));
    }
    if upd.table != fresh.table {
        return Some(("table", "symbol tables differ".to_string()));
    }
    let (e1, e2) = (upd.errors(), fresh.errors());
    if e1 != e2 {
        return Some(("diagnostics", format!("{:?} vs {:?}", e1, e2)));
    }
    None
}

fn clip(s: &str) -> String {
    if s.len() > 600 {
        format!("{}…", &s[..s.char_indices().take_while(|(i, _)| *i < 600).last().map_or(0, |(i, c)| i + c.len_utf8())])
    } else {
        s.to_string()
    }
}

pub struct StepReport {
    pub class: &'static str,
    pub nontrivial: bool,
}

/// Run a history on the tree under test. Returns Err((step, component, description)) at the first
/// divergence or panic.
pub fn run_history(case: &Case, mut on_step: impl FnMut(StepReport)) -> Result<(), (usize, String, String)> {
    let t0 = case.initial.clone();
    let mut cur = catch(move || AnalyzedSource::new(t0)).map_err(|sig| (0usize, sig, "analysis of the initial document panics".to_string()))?;
    for (k, batch) in case.history.iter().enumerate() {
        let changes: Vec<TextChange> = batch.iter().map(|e| TextChange { range: e.range.clone(), text: e.text.clone() }).collect();
        let was_valid = catch(|| is_syntactically_valid(&cur)).unwrap_or(false);
        // non-trivial: at least one old global declaration lies entirely outside every edit
        let n_decls = cur.ast.global_declarations.len();
        let untouched = if batch.len() == 1 {
            let e = &batch[0];
            cur.ast
                .global_declarations
                .iter()
                .filter(|gd| {
                    let r = catch(|| gd.to_text_range(&cur.tokens[gd.offset..])).unwrap_or(0..usize::MAX);
                    r.end < e.range.start || r.start > e.range.end
                })
                .count()
        } else {
            0
        };
        let noop = batch.iter().all(|e| cur.text.get(e.range.clone()) == Some(e.text.as_str()));
        let prev = cur.clone();
        let upd = catch(move || prev.update(changes)).map_err(|sig| (k + 1, sig, "incremental update panics".to_string()))?;
        let text = upd.text.clone();
        let fresh = catch(move || AnalyzedSource::new(text)).map_err(|sig| (k + 1, sig, "fresh analysis panics".to_string()))?;
        let diff = catch(|| difference(&upd, &fresh)).map_err(|sig| (k + 1, sig, "collecting diagnostics panics".to_string()))?;
        if let Some((component, what)) = diff {
            return Err((k + 1, format!("diverge:{}", component), what));
        }
        let now_valid = is_syntactically_valid(&fresh);
        on_step(StepReport {
            class: match (noop, batch.len() > 1, was_valid, now_valid) {
                (true, _, _, _) => "no-op",
                (_, true, _, _) => "batch",
                (_, _, true, true) => "valid->valid",
                (_, _, true, false) => "valid->broken",
                (_, _, false, true) => "broken->valid",
                (_, _, false, false) => "broken->broken",
            },
            nontrivial: n_decls >= 2 && untouched >= 1,
        });
        cur = upd;
    }
    Ok(())
}

pub struct Histories;

pub fn describe_case(case: &Case) -> Value {
    json!({
        "stratum": case.stratum,
        "initial": case.initial,
        "history": case.history.iter().map(|b| b.iter().map(|e| json!({"range": [e.range.start, e.range.end], "insert": e.text})).collect::<Vec<_>>()).collect::<Vec<_>>(),
    })
}

impl Check for Histories {
    fn part(&self) -> &'static str {
        "edit-histories"
    }
    fn max_len(&self) -> usize {
        2500
    }
    fn run(&self, bytes: &[u8]) -> CaseResult {
        let case = decode(bytes);
        let mut r = CaseResult::new(fnv(format!("{:?}{:?}", case.initial, case.history).as_bytes()));
        r.label(format!("stratum:{}", case.stratum));
        r.evals = 0;
        let mut labels = Vec::new();
        let mut nontrivial = false;
        let mut steps = 0u64;
        let res = run_history(&case, |s| {
            labels.push(format!("step:{}", s.class));
            nontrivial |= s.nontrivial;
            steps += 1;
        });
        r.evals = steps.max(1);
        r.labels.extend(labels);
        r.nontrivial = nontrivial;
        if let Err((step, sig, what)) = res {
            let mut sig = sig;
            if sig.starts_with("diverge:") || sig.starts_with("panic@") {
                // triage: does the unchanged (pinned) tree already fail on exactly this history?
                if crate::pinned_triage::fails_too(&case, step) {
                    sig = "C01-tail".to_string();
                }
            }
            r.fail(sig, format!("step {}: incremental analysis differs from analysis from scratch: {}", step, what), describe_case(&case));
        }
        r
    }
    fn describe(&self, bytes: &[u8]) -> Value {
        describe_case(&decode(bytes))
    }
    fn minimise(&self, bytes: &[u8]) -> Option<(Box<dyn Check>, Vec<u8>)> {
        minimise_history(&decode(bytes)).map(|b| (Box::new(ExplicitHistory) as Box<dyn Check>, b))
    }
}

/// Validity-preserving histories: model mutations and layout edits, delivered as minimal text
/// differences (single changes and batches of two).
pub struct ModelEdits;

pub fn decode_model(bytes: &[u8]) -> (Case, Vec<String>) {
    use splgen::layout::{gen_layout, lay, Style};
    use splgen::mutate;
    use splgen::prog::gen_prog;
    use splgen::render::render;
    let mut s = Src::new(bytes);
    let cfg = GenCfg { max_decls: 6, budget: 140, ..GenCfg::default() };
    let mut prog = gen_prog(&mut s, &cfg);
    let mut r = render(&prog);
    let style = *s.pick(&[Style::Commented, Style::Spaced, Style::Plain, Style::LeadingComments]);
    let mut l = gen_layout(&r.toks, &mut s, style);
    let initial = lay(&r.toks, &l).text;
    let mut text = initial.clone();
    let mut classes = Vec::new();
    let mut history = Vec::new();
    let mut counter = 0usize;
    let n = 1 + s.below(6);
    for _ in 0..n {
        let k = if s.chance(1, 4) { 2 } else { 1 };
        let mut batch = Vec::new();
        for _ in 0..k {
            let class = if s.chance(3, 10) {
                mutate::layout_edit(&mut s, &mut l, &mut counter)
            } else {
                let c = mutate::mutate(&mut s, &mut prog, &cfg);
                let r1 = render(&prog);
                l = mutate::carry_layout(&r.toks, &l, &r1.toks, &mut s);
                r = r1;
                c
            };
            let new_text = lay(&r.toks, &l).text;
            if let Some(e) = mutate::diff(&text, &new_text) {
                classes.push(class.to_string());
                batch.push(e);
                text = new_text;
            }
        }
        if !batch.is_empty() {
            history.push(batch);
        }
    }
    (Case { stratum: "valid-model".into(), initial, history }, classes)
}

impl Check for ModelEdits {
    fn part(&self) -> &'static str {
        "valid-to-valid-model-edits"
    }
    fn max_len(&self) -> usize {
        3000
    }
    fn run(&self, bytes: &[u8]) -> CaseResult {
        let (case, classes) = decode_model(bytes);
        let mut r = CaseResult::new(fnv(format!("{:?}{:?}", case.initial, case.history).as_bytes()));
        for c in classes {
            r.label(format!("edit:{}", c));
        }
        let mut labels = Vec::new();
        let mut nontrivial = false;
        let mut steps = 0u64;
        let res = run_history(&case, |s| {
            labels.push(format!("step:{}", s.class));
            nontrivial |= s.nontrivial;
            steps += 1;
        });
        r.evals = steps.max(1);
        r.labels.extend(labels);
        r.nontrivial = nontrivial;
        if let Err((step, sig, what)) = res {
            let mut sig = sig;
            if crate::pinned_triage::fails_too(&case, step) {
                // reported separately: this stratum was clean on the repaired baseline
                sig = "C01-tail-valid".to_string();
            }
            r.fail(sig, format!("step {}: incremental analysis differs from analysis from scratch after a validity-preserving edit: {}", step, what), describe_case(&case));
        }
        r
    }
    fn describe(&self, bytes: &[u8]) -> Value {
        let (case, classes) = decode_model(bytes);
        let mut v = describe_case(&case);
        v["edit_classes"] = json!(classes);
        v
    }
    fn minimise(&self, bytes: &[u8]) -> Option<(Box<dyn Check>, Vec<u8>)> {
        minimise_history(&decode_model(bytes).0).map(|b| (Box::new(ExplicitHistory) as Box<dyn Check>, b))
    }
}

/// Server level: the diagnostics published after a didChange equal those published after a
/// didOpen of the same text (positions computed by the client model). Histories on which the
/// library-level analysis itself diverges are left to the parts above.
pub struct Published;

impl Check for Published {
    fn part(&self) -> &'static str {
        "published-diagnostics-after-didchange"
    }
    fn max_len(&self) -> usize {
        2500
    }
    fn run(&self, bytes: &[u8]) -> CaseResult {
        use crate::srv::{self, Srv};
        use splgen::lsp as cl;
        let case = decode(bytes);
        let mut r = CaseResult::new(fnv(format!("{:?}{:?}", case.initial, case.history).as_bytes()) ^ 0xd1a6);
        r.label(format!("stratum:{}", case.stratum));
        if run_history(&case, |_| {}).is_err() {
            r.excluded.push("library-level-divergence(reported by the other parts)".into());
            return r;
        }
        let u = srv::default_uri();
        let mut live = Srv::new(true);
        live.open(&u, &case.initial);
        let mut text = case.initial.clone();
        r.evals = 0;
        // what the client knows: the last list published for the document (a server need not
        // publish again when nothing changes)
        let mut known = live.diagnostics().into_iter().filter(|p| p.uri == u).last();
        for (k, batch) in case.history.iter().enumerate() {
            let mut t2 = text.clone();
            let mut changes = Vec::new();
            let mut ok = true;
            for e in batch {
                if !cl::expressible(&t2, e.range.start) || !cl::expressible(&t2, e.range.end) {
                    ok = false;
                    break;
                }
                changes.push(srv::change_event(Some((cl::pos_of(&t2, e.range.start), cl::pos_of(&t2, e.range.end))), &e.text));
                t2.replace_range(e.range.clone(), &e.text);
            }
            if !ok {
                r.excluded.push("edit-not-expressible-as-position".into());
                break;
            }
            live.change(&u, changes);
            text = t2;
            if let Err(sig) = live.settle() {
                r.fail(sig, "the document broker dies", describe_case(&case));
                return r;
            }
            if let Some(p) = live.diagnostics().into_iter().filter(|p| p.uri == u).last() {
                known = Some(p);
            }
            let got = known.clone();
            let mut fresh = Srv::new(true);
            fresh.open(&u, &text);
            let _ = fresh.settle();
            let want = fresh.diagnostics().into_iter().filter(|p| p.uri == u).last();
            r.evals += 1;
            // the analysis the broker hands to every feature handler (text, tokens, tree, symbol table)
            match (live.info(&u), fresh.info(&u)) {
                (Some(a), Some(b)) => {
                    let d = catch(|| difference(&a, &b).map(|(c, w)| (c.to_string(), w)));
                    if let Ok(Some((component, what))) = d {
                        r.fail(
                            format!("broker-state-differs:{}", component),
                            format!("after notification {} the analysis the document broker serves differs from the analysis of a fresh didOpen of the same text: {}", k + 1, what),
                            describe_case(&case),
                        );
                        return r;
                    }
                }
                (a, b) => {
                    if a.is_some() != b.is_some() {
                        r.fail("broker-state-missing", format!("after notification {} the broker serves {} analysis", k + 1, if a.is_some() { "an" } else { "no" }), describe_case(&case));
                        return r;
                    }
                }
            }
            let strip = |p: &Option<lsp_types::PublishDiagnosticsParams>| p.as_ref().map(|p| p.diagnostics.iter().map(|d| (d.range, d.message.clone(), d.severity)).collect::<Vec<_>>());
            if strip(&got) != strip(&want) {
                r.fail(
                    "published-diagnostics-differ",
                    format!("after notification {} the published diagnostics differ from those of a fresh didOpen of the same text: {:?} vs {:?}", k + 1, strip(&got), strip(&want)),
                    describe_case(&case),
                );
                return r;
            }
        }
        r.evals = r.evals.max(1);
        r.nontrivial = case.history.len() >= 2 && case.stratum != "empty";
        r
    }
    fn describe(&self, bytes: &[u8]) -> Value {
        describe_case(&decode(bytes))
    }
}

/// Explicit histories (regression corpus): the bytes are the UTF-8 JSON text
/// `{"initial": "...", "history": [[{"range":[a,b],"insert":"..."}]]}`.
pub struct ExplicitHistory;

fn decode_explicit(bytes: &[u8]) -> Option<Case> {
    let v: Value = serde_json::from_slice(bytes).ok()?;
    let initial = v["initial"].as_str()?.to_string();
    let mut history = Vec::new();
    let mut text = initial.clone();
    for b in v["history"].as_array()? {
        let mut batch = Vec::new();
        for e in b.as_array()? {
            let a = e["range"][0].as_u64()? as usize;
            let z = e["range"][1].as_u64()? as usize;
            let ins = e["insert"].as_str()?.to_string();
            if a > z || z > text.len() || !text.is_char_boundary(a) || !text.is_char_boundary(z) {
                return None;
            }
            text.replace_range(a..z, &ins);
            batch.push(Edit { range: a..z, text: ins });
        }
        history.push(batch);
    }
    Some(Case { stratum: "explicit".into(), initial, history })
}

impl Check for ExplicitHistory {
    fn part(&self) -> &'static str {
        "explicit-history"
    }
    fn max_len(&self) -> usize {
        0
    }
    fn run(&self, bytes: &[u8]) -> CaseResult {
        let mut r = CaseResult::new(fnv(bytes));
        let Some(case) = decode_explicit(bytes) else {
            r.excluded.push("not-a-history".into());
            return r;
        };
        let mut steps = 0;
        let res = run_history(&case, |_| steps += 1);
        r.evals = steps.max(1);
        r.nontrivial = true;
        if let Err((step, sig, what)) = res {
            let sig = if crate::pinned_triage::fails_too(&case, step) { "C01-tail".to_string() } else { sig };
            r.fail(sig, format!("step {}: incremental analysis differs from analysis from scratch: {}", step, what), describe_case(&case));
        }
        r
    }
    fn describe(&self, bytes: &[u8]) -> Value {
        decode_explicit(bytes).map_or(json!("undecodable"), |c| describe_case(&c))
    }
}

/// Domain-aware second shrinking pass: isolate the failing step, try its changes one by one from
/// the fresh state, shrink (old text, change) character-wise while the tree under test still
/// diverges and the pinned copy still does not, and emit an explicit one-step history.
fn minimise_history(case: &Case) -> Option<Vec<u8>> {
    use crate::devtools::{shrink_with, Mini};
    let step = match run_history(case, |_| {}) {
        Err((step, _, _)) if step >= 1 => step,
        _ => return None,
    };
    let mut text = case.initial.clone();
    for batch in case.history.iter().take(step - 1) {
        for e in batch {
            text.replace_range(e.range.clone(), &e.text);
        }
    }
    let violates = |c: &Case| -> bool {
        match run_history(c, |_| {}) {
            Err((st, _, _)) => !crate::pinned_triage::fails_too(c, st),
            Ok(()) => false,
        }
    };
    let batch = &case.history[step - 1];
    // a single change of the batch that fails on its own (from the fresh state before it)?
    let mut t = text.clone();
    for e in batch {
        let single = Case { stratum: "explicit".into(), initial: t.clone(), history: vec![vec![e.clone()]] };
        if violates(&single) {
            let m = Mini { pre: t[..e.range.start].to_string(), del: t[e.range.clone()].to_string(), suf: t[e.range.end..].to_string(), ins: e.text.clone() };
            let as_case = |m: &Mini| Case {
                stratum: "explicit".into(),
                initial: m.old_text(),
                history: vec![vec![Edit { range: m.pre.len()..m.pre.len() + m.del.len(), text: m.ins.clone() }]],
            };
            let small = shrink_with(m, &|m| violates(&as_case(m)));
            let c = as_case(&small);
            return Some(serde_json::to_vec(&describe_case(&c)).unwrap());
        }
        t.replace_range(e.range.clone(), &e.text);
    }
    // the batch only fails as a whole: keep it, drop the steps before it
    let c = Case { stratum: "explicit".into(), initial: text, history: vec![batch.clone()] };
    if violates(&c) {
        return Some(serde_json::to_vec(&describe_case(&c)).unwrap());
    }
    None
}

pub fn checks() -> Vec<Box<dyn Check>> {
    vec![Box::new(Histories), Box::new(ModelEdits), Box::new(ExplicitHistory), Box::new(Published)]
}

pub fn run(ctx: &Ctx) -> i32 {
    let mut parts = vec![
        crate::corpus_part(ctx, &checks()),
        run_pbt(ctx, &Histories, ctx.n(24_000, 400_000)),
        run_pbt(ctx, &ModelEdits, ctx.n(16_000, 300_000)),
        run_pbt(ctx, &Published, ctx.n(5_000, 80_000)),
    ];
    if ctx.thorough() {
        parts.push(fuzz_part(ctx, "c01_histories", &Histories, 250_000, 2500));
    }
    finish(
        ctx,
        parts,
        "initial documents of five strata (valid programs in random layout with comments, damaged programs, token soup, arbitrary Unicode, empty) x histories of 1-8 notifications, 30% of them batches of 2-3 changes (token-aligned deletions/insertions/replacements/duplications, character-level edits, donor slices, no-op edits); after every step text, tokens, tree with all attached diagnostics, symbol table and errors() are compared with a fresh analysis of the same text; non-trivial = a single-change step that leaves at least one old global declaration (of >= 2) entirely untouched; distinct = distinct (initial, history); evaluations = update steps",
        &[
            "changes lie on character boundaries",
            "a history stops at its first divergence",
            "failures the pinned copy of the repaired baseline (pinned/) also shows on the same history at the same step are the recorded family C01-tail; anything the pinned copy does not show is a violation",
        ],
        json!({}),
    )
}

//! Shared helpers for the formatting properties C09, C10, C11: ask the real handler through the
//! broker, validate the response shape, apply it with the independent client model.

use crate::driver::*;
use crate::features;
use crate::srv::{self, Srv};
use lsp_types::*;
use splgen::lsp;
use splgen::reflex::{self, RKind};

#[derive(Clone, Copy, Debug, PartialEq, Eq)]
pub struct Opts {
    pub insert_spaces: bool,
    pub tab_size: u32,
}

impl Opts {
    pub fn unit(&self) -> String {
        if self.insert_spaces {
            " ".repeat(self.tab_size as usize)
        } else {
            "\t".to_string()
        }
    }
}

pub enum Formatted {
    /// `null`: nothing would change
    Unchanged,
    /// exactly one edit: (range as reported, new text)
    Edit(Range, String),
}

/// Err((signature, description)) for panics, handler errors and malformed responses.
pub fn format(text: &str, o: Opts) -> Result<Formatted, (String, String)> {
    let u = srv::default_uri();
    let mut srv = Srv::new(false);
    srv.open(&u, text);
    let params = DocumentFormattingParams {
        text_document: TextDocumentIdentifier { uri: u.clone() },
        options: FormattingOptions { tab_size: o.tab_size, insert_spaces: o.insert_spaces, ..Default::default() },
        work_done_progress_params: Default::default(),
    };
    let doctx = srv.doctx.clone();
    let res = catch(|| srv::block_on(features::format(doctx, params))).map_err(|sig| (sig, "the formatting handler panics".to_string()))?;
    let res = res.map_err(|e| ("handler-error".to_string(), format!("the formatting handler fails: {}", e)))?;
    match res {
        None => Ok(Formatted::Unchanged),
        Some(edits) => {
            if edits.len() != 1 {
                return Err(("not-one-edit".into(), format!("{} edits returned, expected exactly one whole-document edit", edits.len())));
            }
            let e = edits.into_iter().next().unwrap();
            Ok(Formatted::Edit(e.range, e.new_text))
        }
    }
}

/// The edit must replace exactly the whole document: (0,0) .. end of document under the client model.
pub fn whole_document_problem(text: &str, range: &Range) -> Option<String> {
    let end = lsp::end_pos(text);
    let s = srv::from_lsp(range.start);
    let e = srv::from_lsp(range.end);
    if s.line != 0 || s.character != 0 || e != end {
        return Some(format!("the edit covers {:?}..{:?}, the whole document is (0,0)..{:?}", s, e, end));
    }
    None
}

/// Result text after applying the response with the client model.
pub fn apply(text: &str, f: &Formatted) -> String {
    match f {
        Formatted::Unchanged => text.to_string(),
        Formatted::Edit(range, new_text) => {
            let mut t = text.to_string();
            lsp::apply(
                &mut t,
                &lsp::Change { range: Some((srv::from_lsp(range.start), srv::from_lsp(range.end))), text: new_text.clone() },
            );
            t
        }
    }
}

/// Non-comment tokens by kind and *value* (`0x0a` = `0x0A`, `007` = `7` as decimal literals).
pub fn code_tokens(text: &str) -> Vec<RKind> {
    reflex::lex(text).into_iter().filter(|t| !t.is_comment()).map(|t| t.kind).collect()
}

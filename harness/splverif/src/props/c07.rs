//! C07 Incremental lexing yields the batch token stream and an exact change window.

use crate::driver::*;
use serde_json::{json, Value};
use spl_frontend::{lexer, tokens::Token, TextChange};
use splgen::prog::GenCfg;
use splgen::src::{fnv, Src};
use splgen::text::{self, char_bounds, Edit};

const ALPHABET: [&str; 13] = ["a", "i", "f", "0", "x", "1", "<", "=", ":", "/", "'", " ", "\n"];

fn shift_tok(t: &Token, delta: isize) -> Token {
    let sh = |x: usize| (x as isize + delta) as usize;
    let mut n = t.clone();
    n.range = sh(t.range.start)..sh(t.range.end);
    for e in n.errors.iter_mut() {
        e.0 = sh(e.0.start)..sh(e.0.end);
    }
    n
}

/// One update step; `old_tokens` must be the token stream of `old_text` as the server holds it.
pub fn check_step(old_text: &str, old_tokens: &[Token], e: &Edit, r: &mut CaseResult) -> Option<Vec<Token>> {
    let mut new_text = old_text.to_string();
    new_text.replace_range(e.range.clone(), &e.text);
    let change = TextChange { range: e.range.clone(), text: e.text.clone() };
    let detail = || json!({ "old_text": old_text, "range": [e.range.start, e.range.end], "insert": e.text, "new_text": new_text });
    let fresh = match catch(|| lexer::lex(&new_text)) {
        Ok(t) => t,
        Err(sig) => {
            r.fail(sig, "batch tokenisation panics", detail());
            return None;
        }
    };
    let old = old_tokens.to_vec();
    let (upd, window) = match catch(|| lexer::update(&new_text, old, &change)) {
        Ok(x) => x,
        Err(sig) => {
            r.fail(sig, "incremental tokenisation panics", detail());
            return Some(fresh);
        }
    };
    if upd != fresh {
        let first = upd.iter().zip(fresh.iter()).position(|(a, b)| a != b).unwrap_or(upd.len().min(fresh.len()));
        r.fail(
            "update-differs-from-lex",
            format!(
                "incremental token stream differs from a fresh tokenisation at token {} (incremental {:?}, fresh {:?}; lengths {} / {})",
                first,
                upd.get(first),
                fresh.get(first),
                upd.len(),
                fresh.len()
            ),
            detail(),
        );
        return Some(fresh);
    }
    // change window
    let n_old = old_tokens.len();
    let del = window.deletion_range.clone();
    let ins = window.insertion_len;
    let delta = e.text.len() as isize - e.range.len() as isize;
    let mut problem = None;
    if del.start > del.end || del.end > n_old.saturating_sub(1) {
        problem = Some(format!("window {:?} is outside the old stream of {} tokens (end-of-file excluded)", del, n_old));
    } else if n_old - del.len() + ins != upd.len() {
        problem = Some(format!("lengths do not add up: {} old - {} deleted + {} inserted != {} new", n_old, del.len(), ins, upd.len()));
    } else if upd[..del.start] != old_tokens[..del.start] {
        problem = Some("tokens before the window are not the untouched old ones".to_string());
    } else {
        let tail_new = &upd[del.start + ins..];
        let tail_old = &old_tokens[del.end..];
        for (a, b) in tail_new.iter().zip(tail_old) {
            if *a != shift_tok(b, delta) {
                problem = Some(format!("token after the window {:?} is not the old token {:?} shifted by {}", a, b, delta));
                break;
            }
        }
    }
    if let Some(p) = problem {
        let mut d = detail();
        d["window"] = json!({ "deletion_range": [del.start, del.end], "insertion_len": ins });
        r.fail("window-untruthful", p, d);
    }
    // non-trivial: the change touches or abuts a token, or changes the token count
    let touches = old_tokens.iter().any(|t| !t.range.is_empty() && t.range.start <= e.range.end && e.range.start <= t.range.end);
    if (touches && (del.len() < n_old - 1 || ins > 0)) || upd.len() != n_old {
        r.nontrivial = true;
    }
    Some(fresh)
}

/// Random documents (G3) with chained single changes (G4): the tokens of step k feed step k+1.
pub struct Chained;

fn decode_chained(s: &mut Src) -> (String, String, Vec<Edit>) {
    let (stratum, initial) = match s.below(8) {
        0 | 1 => ("soup".to_string(), text::soup(s, 40)),
        2 => ("unicode".to_string(), text::unicode(s, 60)),
        _ => {
            let (st, t) = text::gen_document(s, &GenCfg { max_decls: 4, ..GenCfg::default() });
            (st.name().to_string(), t)
        }
    };
    let n = 1 + s.below(6);
    let mut cur = initial.clone();
    let mut edits = Vec::new();
    for _ in 0..n {
        let e = text::gen_edit(s, &cur, &initial);
        cur.replace_range(e.range.clone(), &e.text);
        edits.push(e);
    }
    (stratum, initial, edits)
}

impl Check for Chained {
    fn part(&self) -> &'static str {
        "random-chained"
    }
    fn max_len(&self) -> usize {
        1500
    }
    fn run(&self, bytes: &[u8]) -> CaseResult {
        let mut s = Src::new(bytes);
        let (stratum, initial, edits) = decode_chained(&mut s);
        let mut r = CaseResult::new(fnv(format!("{:?}{:?}", initial, edits).as_bytes()));
        r.label(format!("stratum:{}", stratum));
        r.evals = 0;
        let mut text = initial;
        let mut tokens = match catch(|| lexer::lex(&text)) {
            Ok(t) => t,
            Err(sig) => {
                r.fail(sig, "batch tokenisation panics", json!({ "text": text }));
                return r;
            }
        };
        for e in &edits {
            r.evals += 1;
            match check_step(&text, &tokens, e, &mut r) {
                Some(t) => tokens = t,
                None => break,
            }
            text.replace_range(e.range.clone(), &e.text);
            if !r.failures.is_empty() {
                break;
            }
        }
        r.evals = r.evals.max(1);
        r
    }
    fn describe(&self, bytes: &[u8]) -> Value {
        let mut s = Src::new(bytes);
        let (stratum, initial, edits) = decode_chained(&mut s);
        json!({ "stratum": stratum, "initial": initial, "edits": edits.iter().map(|e| json!({"range": [e.range.start, e.range.end], "insert": e.text})).collect::<Vec<_>>() })
    }
}

/// Explicit small cases: [len, symbols.., start, end, ins_len, symbols..], every field a direct index.
pub struct Explicit;

fn decode_explicit(bytes: &[u8]) -> (String, Edit) {
    let mut s = Src::new(bytes);
    let n = s.below(6);
    let text: String = (0..n).map(|_| ALPHABET[s.below(ALPHABET.len())]).collect();
    let b = char_bounds(&text);
    let a = s.below(b.len());
    let e = a + s.below(b.len() - a);
    let m = s.below(4);
    let ins: String = (0..m).map(|_| ALPHABET[s.below(ALPHABET.len())]).collect();
    (text, Edit { range: b[a]..b[e], text: ins })
}

impl Check for Explicit {
    fn part(&self) -> &'static str {
        "exhaustive-small"
    }
    fn max_len(&self) -> usize {
        12
    }
    fn run(&self, bytes: &[u8]) -> CaseResult {
        let (text, e) = decode_explicit(bytes);
        let mut r = CaseResult::new(fnv(format!("{:?}{:?}", text, e).as_bytes()));
        match catch(|| lexer::lex(&text)) {
            Ok(tokens) => {
                check_step(&text, &tokens, &e, &mut r);
            }
            Err(sig) => r.fail(sig, "batch tokenisation panics", json!({ "text": text })),
        }
        r
    }
    fn describe(&self, bytes: &[u8]) -> Value {
        let (text, e) = decode_explicit(bytes);
        json!({ "text": text, "range": [e.range.start, e.range.end], "insert": e.text })
    }
}

/// all texts up to `max_text` symbols x all ranges x all replacements up to `max_ins` symbols
pub fn enumerate(max_text: usize, max_ins: usize) -> Vec<Vec<u8>> {
    let k = ALPHABET.len();
    fn strings(k: usize, max: usize) -> Vec<Vec<usize>> {
        let mut out = vec![vec![]];
        let mut frontier: Vec<Vec<usize>> = vec![vec![]];
        for _ in 0..max {
            let mut next = Vec::new();
            for f in &frontier {
                for i in 0..k {
                    let mut v = f.clone();
                    v.push(i);
                    next.push(v);
                }
            }
            out.extend(next.iter().cloned());
            frontier = next;
        }
        out
    }
    let texts = strings(k, max_text);
    let inss = strings(k, max_ins);
    let mut out = Vec::new();
    for t in &texts {
        let nb = t.len() + 1; // all symbols are single characters
        for a in 0..nb {
            for e in a..nb {
                for ins in &inss {
                    if a == e && ins.is_empty() {
                        continue;
                    }
                    let mut v = vec![byte_for(t.len(), 6)];
                    v.extend(t.iter().map(|i| byte_for(*i, k)));
                    v.push(byte_for(a, nb));
                    v.push(byte_for(e - a, nb - a));
                    v.push(byte_for(ins.len(), 4));
                    v.extend(ins.iter().map(|i| byte_for(*i, k)));
                    out.push(v);
                }
            }
        }
    }
    out
}

pub fn checks() -> Vec<Box<dyn Check>> {
    vec![Box::new(Chained), Box::new(Explicit)]
}

pub fn run(ctx: &Ctx) -> i32 {
    let mut parts = Vec::new();
    parts.push(crate::corpus_part(ctx, &checks()));
    if ctx.thorough() {
        parts.push(run_list(ctx, &Explicit, "exhaustive-small(text<=3,ins<=2)", &enumerate(3, 2), true));
        parts.push(run_list(ctx, &Explicit, "exhaustive-small(text<=4,ins<=1)", &enumerate(4, 1), true));
    } else {
        parts.push(run_list(ctx, &Explicit, "exhaustive-small(text<=3,ins<=1)", &enumerate(3, 1), true));
    }
    parts.push(run_pbt(ctx, &Explicit, ctx.n(100_000, 1_000_000)));
    parts.push(run_pbt(ctx, &Chained, ctx.n(60_000, 1_500_000)));
    if ctx.thorough() {
        parts.push(fuzz_part(ctx, "c07_lex_update", &Chained, 400_000, 1500));
    }
    finish(
        ctx,
        parts,
        "exhaustive: all texts up to 3 (thorough: 4) symbols over a 13-symbol alphabet covering every look-ahead class x all change ranges x all replacements up to 1 (thorough: 2) symbols; random: explicit texts up to 5 symbols with replacements up to 3, and generated documents (valid, damaged, token soup, Unicode) with chains of 1-6 changes where the tokens of step k feed step k+1; non-trivial = the change touches or abuts a token and does not simply replace the whole stream, or the token count changes; distinct = distinct (text, change)",
        &["changes lie on character boundaries (the server converts LSP positions to such ranges)"],
        json!({}),
    )
}

//! C03 Diagnostics are exactly what SPL prescribes, and point at the culprit.

use crate::document;
use crate::driver::*;
use crate::srv::{self, Srv};
use serde_json::{json, Value};
use spl_frontend::error::{ErrorMessage, SplError};
use spl_frontend::{AnalyzedSource, ErrorContainer};
use splgen::faults::{self, Locator, KINDS};
use splgen::layout::{gen_layout, lay, Laid, Style};
use splgen::lsp;
use splgen::prog::*;
use splgen::render::{render, ENode, Rendered};
use splgen::src::{fnv, Src};
use std::ops::Range;

fn analyse(text: &str) -> Result<Vec<SplError>, String> {
    let t = text.to_string();
    catch(move || AnalyzedSource::new(t).errors())
}

fn is_syntactic(e: &SplError) -> bool {
    matches!(e.1, ErrorMessage::LexErrorMessage(_) | ErrorMessage::ParseErrorMessage(_))
}

fn show(errs: &[SplError]) -> Vec<String> {
    errs.iter().map(|e| format!("{:?} {}", e.0, e.1.to_string().trim())).collect()
}

/// The rule a diagnostic names, independent of its wording: the variant of the message enum and
/// its arguments, read from the `Debug` form (`SemanticErrorMessage(ArgumentsTypeMismatch("p", 2))`
/// -> ("ArgumentsTypeMismatch", ["p", "2"])). The statement asks that the diagnostic *names the
/// rule*; how the message is phrased is left to the server.
fn rule_of(m: &ErrorMessage) -> (String, Vec<String>) {
    let d = format!("{:?}", m);
    let inner = d.split_once('(').map_or(d.as_str(), |x| x.1);
    let inner = inner.strip_suffix(')').unwrap_or(inner);
    match inner.split_once('(') {
        None => (inner.to_string(), vec![]),
        Some((v, rest)) => {
            let rest = rest.strip_suffix(')').unwrap_or(rest);
            let args = rest.split(", ").map(|a| a.trim_matches(|c| c == '"' || c == '\'').to_string()).collect();
            (v.to_string(), args)
        }
    }
}

/// the items written in back-ticks in a predicted message (names, argument indices, tokens)
fn backticked(text: &str) -> Vec<String> {
    text.split('`').skip(1).step_by(2).map(|x| x.to_string()).collect()
}

/// Does the diagnostic name the rule `kind` with the arguments of the predicted message?
/// (`kind` = variant name of the build / semantic message enums; for syntax messages the variant
/// is derived from the predicted text.)
fn names_rule(m: &ErrorMessage, kind: &str, predicted: &str) -> bool {
    let (variant, args) = rule_of(m);
    let want_variant = match kind {
        "" => {
            if predicted.starts_with("missing trailing") {
                "MissingTrailingSemic"
            } else if predicted.starts_with("missing closing") {
                "MissingClosing"
            } else if predicted.starts_with("missing opening") {
                "MissingOpening"
            } else if predicted.starts_with("expected") {
                "ExpectedToken"
            } else {
                return m.to_string().trim() == predicted;
            }
        }
        k => k,
    };
    if variant != want_variant {
        return false;
    }
    // the enum's arguments appear, in order, among the back-ticked items of the prediction
    let items = backticked(predicted);
    let mut it = items.iter();
    args.iter().all(|a| it.any(|x| x == a))
}

/// every published range lies inside the document (client rules) and maps back to the same bytes
fn published_range_problem(text: &str, e: &SplError) -> Option<String> {
    if e.0.start > e.0.end || e.0.end > text.len() || !text.is_char_boundary(e.0.start) || !text.is_char_boundary(e.0.end) {
        return Some(format!("diagnostic byte range {:?} is not inside the text (length {})", e.0, text.len()));
    }
    let pr = document::as_pos_range(&e.0, text);
    let (s, en) = (srv::from_lsp(pr.start), srv::from_lsp(pr.end));
    let lines = lsp::lines(text);
    for p in [s, en] {
        if p.line as usize >= lines.len() {
            return Some(format!("published position {:?} is past the last line", p));
        }
        let l = &lines[p.line as usize];
        let width: usize = text[l.clone()].chars().map(|c| c.len_utf16()).sum();
        if p.character as usize > width {
            return Some(format!("published position {:?} is past the end of its line (width {})", p, width));
        }
    }
    let back = lsp::offset_of(text, s)..lsp::offset_of(text, en);
    if back != e.0 && lsp::expressible(text, e.0.start) && lsp::expressible(text, e.0.end) {
        return Some(format!("published range {:?}..{:?} addresses bytes {:?}, the diagnostic is at {:?}", s, en, back, e.0));
    }
    None
}

// ---------------------------------------------------------------------------------------------
// part 1: valid programs get no diagnostics
// ---------------------------------------------------------------------------------------------

pub struct Valid;

fn decode_valid(bytes: &[u8]) -> (Prog, Rendered, Laid) {
    let mut s = Src::new(bytes);
    let cfg = GenCfg::default();
    let prog = gen_prog(&mut s, &cfg);
    let rendered = render(&prog);
    let style = *s.pick(&[Style::Commented, Style::Commented, Style::Spaced, Style::Plain]);
    let l = gen_layout(&rendered.toks, &mut s, style);
    let laid = lay(&rendered.toks, &l);
    (prog, rendered, laid)
}

impl Check for Valid {
    fn part(&self) -> &'static str {
        "valid-programs"
    }
    fn max_len(&self) -> usize {
        2500
    }
    fn run(&self, bytes: &[u8]) -> CaseResult {
        let (prog, _rendered, laid) = decode_valid(bytes);
        let mut r = CaseResult::new(fnv(laid.text.as_bytes()));
        match analyse(&laid.text) {
            Err(sig) => r.fail(sig, "analysis of a valid program panics", json!({ "text": laid.text })),
            Ok(errs) => {
                if !errs.is_empty() {
                    r.fail("diagnostic-on-valid-program", format!("a valid program gets diagnostics: {:?}", show(&errs)), json!({ "text": laid.text }));
                }
            }
        }
        // through the broker: the published list must be empty
        if bytes.first().map_or(false, |b| b % 8 == 0) {
            r.evals += 1;
            let mut srv = Srv::new(true);
            let u = srv::default_uri();
            srv.open(&u, &laid.text);
            match srv.settle() {
                Err(sig) => r.fail(sig, "the document broker dies on didOpen of a valid program", json!({ "text": laid.text })),
                Ok(()) => {
                    let d = srv.diagnostics();
                    if d.len() != 1 || !d[0].diagnostics.is_empty() {
                        r.fail(
                            "published-diagnostic-on-valid-program",
                            format!("publishDiagnostics after didOpen of a valid program: {} notifications, first list {:?}", d.len(), d.first().map(|p| p.diagnostics.iter().map(|x| x.message.clone()).collect::<Vec<_>>())),
                            json!({ "text": laid.text }),
                        );
                    }
                }
            }
            r.label("also-through-broker");
        }
        let shadows = prog.procs.iter().any(|p| {
            p.params.iter().chain(p.locals.iter()).any(|v| prog.types.iter().any(|t| t.name == v.name) || prog.procs.iter().any(|q| q.name == v.name))
        });
        let arrays = prog.types.iter().any(|t| !t.ty.is_int());
        r.nontrivial = prog.order.len() >= 2 && (laid.n_comments > 0 || shadows || arrays);
        if shadows {
            r.label("local-shadows-global");
        }
        if arrays {
            r.label("array-types");
        }
        if laid.n_comments > 0 {
            r.label("comments");
        }
        r
    }
    fn describe(&self, bytes: &[u8]) -> Value {
        json!({ "text": decode_valid(bytes).2.text })
    }
}

// ---------------------------------------------------------------------------------------------
// part 2: one injected violation -> exactly the predicted message on the culprit
// ---------------------------------------------------------------------------------------------

pub struct SingleFault;

struct FaultCase {
    fault: Option<faults::Fault>,
    kind: usize,
    rendered: Option<Rendered>,
    laid: Option<Laid>,
    base_text: String,
}

fn decode_fault(bytes: &[u8]) -> FaultCase {
    let mut s = Src::new(bytes);
    let kind = s.below(KINDS.len());
    let cfg = GenCfg { max_decls: 5, budget: 120, ..GenCfg::default() };
    let base = gen_prog(&mut s, &cfg);
    let fault = faults::inject(&mut s, &base, kind);
    match fault {
        None => FaultCase { fault: None, kind, rendered: None, laid: None, base_text: String::new() },
        Some(f) => {
            let rb = render(&f.base);
            let lb = gen_layout(&rb.toks, &mut s, Style::Spaced);
            let base_text = lay(&rb.toks, &lb).text;
            let rendered = render(&f.prog);
            let style = *s.pick(&[Style::Commented, Style::Spaced, Style::Plain, Style::Commented]);
            let l = gen_layout(&rendered.toks, &mut s, style);
            let laid = lay(&rendered.toks, &l);
            FaultCase { fault: Some(f), kind, rendered: Some(rendered), laid: Some(laid), base_text }
        }
    }
}

fn node_at<'a>(tree: &'a ENode, path: &[usize]) -> Option<&'a ENode> {
    let mut n = tree;
    for i in path {
        n = n.children.get(*i)?;
    }
    Some(n)
}

/// byte extent of a node: from its first leading comment (or first token) to the end of its last token
fn extent(laid: &Laid, n: &ENode) -> Range<usize> {
    let start = laid.gap_comments[n.first].first().map_or(laid.ranges[n.first].start, |(_, r)| r.start);
    start..laid.ranges[n.last].end
}

impl Check for SingleFault {
    fn part(&self) -> &'static str {
        "single-fault"
    }
    fn max_len(&self) -> usize {
        2500
    }
    fn run(&self, bytes: &[u8]) -> CaseResult {
        let case = decode_fault(bytes);
        let kind_name = KINDS[case.kind];
        let (fault, rendered, laid) = match (&case.fault, &case.rendered, &case.laid) {
            (Some(f), Some(r), Some(l)) => (f, r, l),
            _ => {
                let mut r = CaseResult::new(fnv(bytes));
                r.excluded.push(format!("injector-not-applicable:{}", kind_name));
                return r;
            }
        };
        let mut r = CaseResult::new(fnv(laid.text.as_bytes()));
        r.label(format!("kind:{}", kind_name));
        // the program without the fault must be clean (otherwise the case says nothing)
        match analyse(&case.base_text) {
            Ok(e) if e.is_empty() => {}
            Ok(e) => {
                r.fail("diagnostic-on-valid-program", format!("the program without the injected fault gets diagnostics: {:?}", show(&e)), json!({ "text": case.base_text }));
                return r;
            }
            Err(sig) => {
                r.fail(sig, "analysis panics", json!({ "text": case.base_text }));
                return r;
            }
        }
        let errs = match analyse(&laid.text) {
            Ok(e) => e,
            Err(sig) => {
                r.fail(sig, "analysis of a single-fault program panics", json!({ "text": laid.text, "kind": kind_name }));
                return r;
            }
        };
        let detail = || json!({ "text": laid.text, "kind": kind_name, "expected_message": fault.message, "diagnostics": show(&errs) });
        if errs.len() != 1 {
            r.fail(
                format!("wrong-diagnostic-count|{}", kind_name),
                format!("a program with exactly one violation ({}) gets {} diagnostics: {:?}", kind_name, errs.len(), show(&errs)),
                detail(),
            );
            return r;
        }
        let e = &errs[0];
        let msg = e.1.to_string();
        if !names_rule(&e.1, kind_name, &fault.message) || is_syntactic(e) {
            r.fail(
                format!("wrong-message|{}", kind_name),
                format!("expected the diagnostic {:?}, got {:?}", fault.message, msg.trim()),
                detail(),
            );
        }
        if let Some(p) = published_range_problem(&laid.text, e) {
            r.fail(format!("range-outside-document|{}", kind_name), p, detail());
        }
        match &fault.locator {
            Locator::Nowhere => {}
            Locator::AnyOf(paths) => {
                let nodes: Vec<&ENode> = paths.iter().filter_map(|p| node_at(&rendered.tree, p)).collect();
                if nodes.len() != paths.len() {
                    r.fail("harness-locator", "internal: culprit path does not exist in the rendered tree", detail());
                    return r;
                }
                let on_culprit = nodes.iter().any(|n| {
                    let ext = extent(laid, n);
                    if fault.exact_token {
                        // exactly the identifier, optionally together with the comments in front of it
                        e.0.end == laid.ranges[n.last].end && (e.0.start == laid.ranges[n.last].start || e.0.start == ext.start)
                    } else {
                        !e.0.is_empty()
                            && ext.start <= e.0.start
                            && e.0.end <= ext.end
                            && e.0.end > laid.ranges[n.first].start
                            && (laid.ranges.iter().any(|t| t.start == e.0.start) || laid.gap_comments.iter().flatten().any(|(_, c)| c.start == e.0.start))
                            && laid.ranges.iter().any(|t| t.end == e.0.end)
                    }
                });
                if !on_culprit {
                    let exts: Vec<_> = nodes.iter().map(|n| (n.kind.clone(), extent(laid, n))).collect();
                    r.fail(
                        format!("diagnostic-not-on-culprit|{}", kind_name),
                        format!("the diagnostic for {} is at bytes {:?} ({:?}); the offending construct is {:?}", kind_name, e.0, laid.text.get(e.0.clone()), exts),
                        detail(),
                    );
                }
            }
        }
        // non-trivial: fault not in the first declaration, nested, or comments in front of the culprit
        let nested = match &fault.locator {
            Locator::AnyOf(paths) => paths.iter().any(|p| p.len() >= 4 || p.first().map_or(false, |d| *d >= 2)),
            Locator::Nowhere => true,
        };
        r.nontrivial = nested || laid.n_comments > 0;
        r
    }
    fn describe(&self, bytes: &[u8]) -> Value {
        let case = decode_fault(bytes);
        json!({
            "kind": KINDS[case.kind],
            "expected_message": case.fault.as_ref().map(|f| f.message.clone()),
            "text": case.laid.as_ref().map(|l| l.text.clone()),
        })
    }
}

// ---------------------------------------------------------------------------------------------
// part 2b: 2-12 independent statement-level violations -> exactly the predicted messages
// (one diagnostic must not hide, end or deduplicate another)
// ---------------------------------------------------------------------------------------------

pub struct TwoFaults;

struct ManyCase {
    kinds: Vec<usize>,
    /// after the j-th injection: (text, the j predicted messages)
    steps: Vec<(String, Vec<String>)>,
}

fn decode_many(bytes: &[u8]) -> ManyCase {
    let mut s = Src::new(bytes);
    // 2 violations in most cases, up to 12 in a third of them
    let k = if s.chance(2, 3) { 2 } else { 3 + s.below(10) };
    let cfg = GenCfg { max_decls: 5, budget: 120, ..GenCfg::default() };
    let mut prog = gen_prog(&mut s, &cfg);
    let mut kinds = Vec::new();
    let mut messages: Vec<String> = Vec::new();
    let mut message_kinds: Vec<usize> = Vec::new();
    let mut steps = Vec::new();
    for _ in 0..k {
        // statement-level kinds only (indices 10..): they are placed in statement lists and do
        // not interact through declarations
        let kind = 10 + s.below(KINDS.len() - 10);
        let Some(f) = faults::inject(&mut s, &prog, kind) else { break };
        kinds.push(kind);
        messages.push(f.message.clone());
        message_kinds.push(kind);
        prog = f.prog;
        let r = render(&prog);
        let style = *s.pick(&[Style::Spaced, Style::Commented, Style::Plain]);
        let l = gen_layout(&r.toks, &mut s, style);
        let want: Vec<String> = messages.iter().zip(&message_kinds).map(|(m, k)| format!("{}|{}", KINDS[*k], m)).collect();
        steps.push((lay(&r.toks, &l).text, want));
    }
    ManyCase { kinds, steps }
}

impl Check for TwoFaults {
    fn part(&self) -> &'static str {
        "several-faults"
    }
    fn max_len(&self) -> usize {
        3500
    }
    fn run(&self, bytes: &[u8]) -> CaseResult {
        let case = decode_many(bytes);
        if case.steps.len() < 2 {
            let mut r = CaseResult::new(fnv(bytes));
            r.excluded.push("injector-not-applicable".to_string());
            return r;
        }
        let last = &case.steps[case.steps.len() - 1];
        let mut r = CaseResult::new(fnv(last.0.as_bytes()));
        r.label(format!("violations:{}", case.steps.len()));
        r.evals = 0;
        let names: Vec<&str> = case.kinds.iter().map(|k| KINDS[*k]).collect();
        for (j, (text, want)) in case.steps.iter().enumerate() {
            r.evals += 1;
            let errs = match analyse(text) {
                Ok(e) => e,
                Err(sig) => {
                    r.fail(sig, "analysis of a program with several violations panics", json!({ "text": text }));
                    return r;
                }
            };
            // every predicted (rule, arguments) is named by exactly one diagnostic and vice versa
            let got: Vec<String> = errs.iter().map(|e| e.1.to_string().trim().to_string()).collect();
            let mut unmatched: Vec<&SplError> = errs.iter().collect();
            let mut all_found = true;
            for w in want {
                let (kind, text) = w.split_once('|').unwrap_or(("", w.as_str()));
                match unmatched.iter().position(|e| names_rule(&e.1, kind, text)) {
                    Some(i) => {
                        unmatched.remove(i);
                    }
                    None => all_found = false,
                }
            }
            if !all_found || !unmatched.is_empty() {
                if j == 0 {
                    // a single violation is the subject of the single-fault part
                    r.excluded.push(format!("first-fault-alone-not-as-predicted:{}", names[0]));
                    return r;
                }
                r.fail(
                    format!("several-faults-wrong-diagnostics|{}", if got.len() < want.len() { "fewer" } else if got.len() > want.len() { "more" } else { "other" }),
                    format!("a program with {} independent violations ({:?}) gets {} diagnostics {:?}, expected {:?}; with {} of them it got exactly the predicted ones", j + 1, &names[..=j], got.len(), show(&errs), want, j),
                    json!({ "text": text, "kinds": &names[..=j], "previous_step": case.steps[j - 1].0 }),
                );
                return r;
            }
            for e in &errs {
                if let Some(p) = published_range_problem(text, e) {
                    r.fail("range-outside-document|several-faults", p, json!({ "text": text }));
                }
            }
        }
        r.nontrivial = true;
        r
    }
    fn describe(&self, bytes: &[u8]) -> Value {
        let c = decode_many(bytes);
        json!({ "kinds": c.kinds.iter().map(|k| KINDS[*k]).collect::<Vec<_>>(), "text": c.steps.last().map(|b| b.0.clone()) })
    }
}

// ---------------------------------------------------------------------------------------------
// part 3: missing-token syntax faults
// ---------------------------------------------------------------------------------------------

pub struct MissingToken;

/// (site of the token to delete, token text, expected message)
const MISSING: [(&str, &str, &str); 17] = [
    ("assign:semic", ";", "missing trailing `;`"),
    ("call:semic", ";", "missing trailing `;`"),
    ("vardec:semic", ";", "missing trailing `;`"),
    ("typedec:semic", ";", "missing trailing `;`"),
    ("if:rparen", ")", "missing closing `)`"),
    ("while:rparen", ")", "missing closing `)`"),
    ("call:rparen", ")", "missing closing `)`"),
    ("proc:rparen", ")", "missing closing `)`"),
    ("proc:rcurly", "}", "missing closing `}`"),
    ("if:lparen", "(", "missing opening `(`"),
    ("while:lparen", "(", "missing opening `(`"),
    ("proc:lcurly", "{", "missing opening `{`"),
    ("vardec:colon", ":", "expected `:`"),
    ("param:colon", ":", "expected `:`"),
    ("typedec:eq", "=", "expected `=`"),
    ("*", "of", "expected `of`"),
    ("*", "]", "missing closing `]`"),
];

struct MissingCase {
    text: String,
    deleted: Option<usize>,
    expected: &'static str,
    /// byte offset where the diagnostic must sit (end of the preceding token)
    at: usize,
    /// byte extent of the damaged declaration in the damaged text
    decl_extent: Range<usize>,
    site: String,
}

fn decode_missing(bytes: &[u8]) -> MissingCase {
    let mut s = Src::new(bytes);
    let cfg = GenCfg { max_decls: 5, budget: 150, ..GenCfg::default() };
    let prog = gen_prog(&mut s, &cfg);
    let rendered = render(&prog);
    let style = *s.pick(&[Style::Spaced, Style::Commented, Style::Plain]);
    let l = gen_layout(&rendered.toks, &mut s, style);
    // candidates
    let toks = &rendered.toks;
    let mut cands: Vec<(usize, &'static str)> = Vec::new();
    for (i, t) in toks.iter().enumerate() {
        if i == 0 {
            continue;
        }
        for (site, text, msg) in MISSING.iter() {
            if t.text != *text {
                continue;
            }
            if *site != "*" && t.site != *site {
                continue;
            }
            // an identical token directly behind it would simply take over its role
            if toks.get(i + 1).map_or(false, |n| n.text == *text) {
                continue;
            }
            // an opening parenthesis directly followed by another one would be taken over
            if (*text == "(") && toks.get(i + 1).map_or(false, |n| n.text == "(") {
                continue;
            }
            // `if (..) x := ..` without `(`: fine; `)` directly before `(`-starting tokens never occurs
            // a missing `;` directly before `[`, `(` or an operator would continue the expression
            if *text == ";" && toks.get(i + 1).map_or(false, |n| [";", "[", "(", "-", "+", "*", "/", "<", ">", "=", "#", "<=", ">=", ":="].contains(&n.text.as_str())) {
                continue;
            }
            // a missing `]` directly before an operator or bracket would continue the index expression
            if *text == "]" && toks.get(i + 1).map_or(false, |n| ["]", "[", "(", "-", "+", "*", "/", "<", ">", "=", "#", "<=", ">="].contains(&n.text.as_str())) {
                continue;
            }
            cands.push((i, msg));
        }
    }
    if cands.is_empty() {
        let laid = lay(toks, &l);
        return MissingCase { text: laid.text, deleted: None, expected: "", at: 0, decl_extent: 0..0, site: String::new() };
    }
    let (del, msg) = cands[s.below(cands.len())];
    let laid = lay(toks, &l);
    // delete the token's bytes; keep the surrounding layout (a space keeps neighbours apart)
    let mut text = laid.text.clone();
    let r = laid.ranges[del].clone();
    text.replace_range(r.clone(), " ");
    let shift = |o: usize| if o >= r.end { o - r.len() + 1 } else { o };
    let decl = toks[del].decl;
    let first_of_decl = toks.iter().position(|t| t.decl == decl).unwrap();
    let next_decl_first = toks.iter().position(|t| t.decl == decl + 1);
    let start = laid.gap_comments[first_of_decl].first().map_or(laid.ranges[first_of_decl].start, |(_, c)| c.start);
    let end = next_decl_first.map_or(text.len(), |n| {
        let st = laid.gap_comments[n].first().map_or(laid.ranges[n].start, |(_, c)| c.start);
        shift(st)
    });
    MissingCase { text, deleted: Some(del), expected: msg, at: laid.ranges[del - 1].end, decl_extent: shift(start)..end, site: format!("{}:{}", toks[del].site, toks[del].text) }
}

impl Check for MissingToken {
    fn part(&self) -> &'static str {
        "missing-token"
    }
    fn max_len(&self) -> usize {
        2500
    }
    fn run(&self, bytes: &[u8]) -> CaseResult {
        let case = decode_missing(bytes);
        let mut r = CaseResult::new(fnv(case.text.as_bytes()));
        if case.deleted.is_none() {
            r.excluded.push("no-deletable-token".into());
            return r;
        }
        r.label(format!("missing:{}", case.expected));
        let errs = match analyse(&case.text) {
            Ok(e) => e,
            Err(sig) => {
                r.fail(sig, "analysis of a program with one missing token panics", json!({ "text": case.text }));
                return r;
            }
        };
        let detail = || json!({ "text": case.text, "deleted": case.site, "expected_message": case.expected, "expected_at": case.at, "diagnostics": show(&errs) });
        let hit = errs.iter().any(|e| names_rule(&e.1, "", &case.expected) && e.0.is_empty() && e.0.start == case.at);
        if !hit {
            r.fail(
                format!("missing-token-not-reported|{}", case.expected),
                format!("expected {:?} at byte {} (end of the preceding token), got {:?}", case.expected, case.at, show(&errs)),
                detail(),
            );
        }
        for e in &errs {
            if is_syntactic(e) {
                if e.0.start < case.decl_extent.start || e.0.end > case.decl_extent.end {
                    r.fail("syntax-diagnostic-outside-declaration", format!("diagnostic {:?} lies outside the damaged declaration {:?}", show(std::slice::from_ref(e)), case.decl_extent), detail());
                }
            }
            if let Some(p) = published_range_problem(&case.text, e) {
                r.fail("range-outside-document", p, detail());
            }
        }
        r.nontrivial = true;
        r
    }
    fn describe(&self, bytes: &[u8]) -> Value {
        let c = decode_missing(bytes);
        json!({ "text": c.text, "deleted": c.site, "expected_message": c.expected, "expected_at": c.at })
    }
}

pub fn checks() -> Vec<Box<dyn Check>> {
    vec![Box::new(Valid), Box::new(SingleFault), Box::new(TwoFaults), Box::new(MissingToken)]
}

pub fn run(ctx: &Ctx) -> i32 {
    let parts = vec![
        crate::corpus_part(ctx, &checks()),
        run_pbt(ctx, &Valid, ctx.n(30_000, 500_000)),
        run_pbt(ctx, &SingleFault, ctx.n(27 * 700, 27 * 10_000)),
        run_pbt(ctx, &TwoFaults, ctx.n(12_000, 200_000)),
        run_pbt(ctx, &MissingToken, ctx.n(15_000, 200_000)),
    ];
    finish(
        ctx,
        parts,
        "part 1: well-typed programs (1-8 declarations, nested arrays, reference parameters, shadowing locals, nested control flow) in random layouts with comments must have no diagnostic (directly and, for 1/8 of the cases, through the document broker's publishDiagnostics); part 2b: 2-12 independent statement-level violations (any of the 17 statement-level kinds, injected one after the other, anywhere) must give exactly the predicted messages after every injection (one diagnostic must not hide, end, cap or deduplicate another); part 2: the same programs plus valid helper declarations plus ONE injected violation of one of the 27 build/semantic rules at a random place (any procedure, any block depth, optionally buried in a larger expression) must have exactly one diagnostic that names the rule (variant of the message enum and its arguments; the wording is not compared), on the culprit; part 3: one token of a curated list deleted -> the matching missing-token message at the end of the preceding token, all syntax diagnostics inside the damaged declaration; non-trivial = comments/shadowing/arrays present (part 1), fault nested or not in the first declaration or comments present (part 2), every case (part 3); distinct = distinct text",
        &[
            "layouts use LF and CRLF line ends only (lone CR is C08's subject)",
            "for rules that name an identifier the diagnostic must cover exactly that identifier token; for the others it must lie within the culprit construct (its leading comments included), start and end on token boundaries and reach its first token",
            "part 3 only deletes tokens for which the expected message is unambiguous (curated list, DESIGN section 6 C03)",
        ],
        json!({ "fault_kinds": KINDS }),
    )
}

//! C04 The syntax tree is the derivation the SPL grammar mandates.

use crate::driver::*;
use crate::walk;
use serde_json::{json, Value};
use spl_frontend::error::ErrorMessage;
use spl_frontend::{lexer, parser, ErrorContainer};
use splgen::layout::{gen_layout, lay, Laid, Layout, Style};
use splgen::prog::*;
use splgen::render::{render, Rendered};
use splgen::src::{fnv, Src};

pub struct Case {
    pub prog: Prog,
    pub rendered: Rendered,
    pub layouts: Vec<(Layout, Laid)>,
}

fn decode(bytes: &[u8]) -> Case {
    let mut s = Src::new(bytes);
    let deep = s.chance(1, 4);
    let cfg = GenCfg {
        max_depth: if deep { 7 } else { 4 },
        budget: if deep { 500 } else { 260 },
        max_decls: if deep { 4 } else { 8 },
        ..GenCfg::default()
    };
    let prog = gen_prog(&mut s, &cfg);
    let rendered = render(&prog);
    let l1 = gen_layout(&rendered.toks, &mut s, Style::Commented);
    let style2 = *s.pick(&[Style::Plain, Style::Spaced, Style::Commented, Style::LeadingComments]);
    let l2 = gen_layout(&rendered.toks, &mut s, style2);
    let a = lay(&rendered.toks, &l1);
    let b = lay(&rendered.toks, &l2);
    Case { prog, rendered, layouts: vec![(l1, a), (l2, b)] }
}

fn mixed_precedence(e: &Expr) -> bool {
    match e {
        Expr::Bin(op, l, r) => {
            let p = prec(op);
            let child = |c: &Expr| matches!(c, Expr::Bin(o, ..) if prec(o) != p);
            child(l) || child(r) || mixed_precedence(l) || mixed_precedence(r)
        }
        Expr::Neg(e) | Expr::Paren(e) => mixed_precedence(e),
        Expr::Var(v) => var_mixed(v),
        Expr::Lit(_) => false,
    }
}

fn var_mixed(v: &Var) -> bool {
    match v {
        Var::Name(..) => false,
        Var::Index(a, i) => var_mixed(a) || mixed_precedence(i),
    }
}

fn stmt_interesting(s: &Stmt) -> bool {
    match s {
        Stmt::Empty => false,
        Stmt::Assign(v, e) => var_mixed(v) || mixed_precedence(e),
        Stmt::Call(_, _, args) => args.iter().any(mixed_precedence),
        Stmt::If(c, t, e) => {
            mixed_precedence(c)
                || (e.is_some() && matches!(**t, Stmt::Block(ref b) if b.len() == 1 && matches!(b[0], Stmt::If(..))))
                || matches!(**t, Stmt::If(..))
                || stmt_interesting(t)
                || e.as_ref().map_or(false, |e| stmt_interesting(e))
        }
        Stmt::While(c, b) => mixed_precedence(c) || stmt_interesting(b),
        Stmt::Block(ss) => ss.iter().any(stmt_interesting),
    }
}

pub fn check_layout(rendered: &Rendered, laid: &Laid, r: &mut CaseResult) -> Option<String> {
    let text = laid.text.clone();
    let parsed = catch(|| {
        let tokens = lexer::lex(&text);
        let program = parser::parse(&tokens);
        (tokens, program)
    });
    let (tokens, program) = match parsed {
        Ok(x) => x,
        Err(sig) => {
            r.fail(sig, "parsing a valid program panics", json!({ "text": text }));
            return None;
        }
    };
    if tokens.len() != rendered.toks.len() + laid.n_comments + 1 {
        r.fail(
            "token-count",
            format!("{} tokens, expected {} code tokens + {} comments + end-of-file", tokens.len(), rendered.toks.len(), laid.n_comments),
            json!({ "text": text }),
        );
        return None;
    }
    let got = walk::program(&program);
    if let Some(d) = walk::compare(&rendered.tree, laid, &got, "") {
        r.fail("tree-differs", d, json!({ "text": text, "expected": rendered.tree.sexpr(), "got": got.sexpr() }));
    }
    let mut errs = program.errors();
    errs.extend(tokens.errors());
    if let Some(e) = errs.iter().find(|e| matches!(e.1, ErrorMessage::LexErrorMessage(_) | ErrorMessage::ParseErrorMessage(_))) {
        r.fail(
            "syntax-diagnostic-on-valid-program",
            format!("a syntactically valid program gets the diagnostic {:?} at tokens {:?}", e.1.to_string().trim(), e.0),
            json!({ "text": text }),
        );
    }
    Some(got.sexpr())
}

pub struct Trees;

impl Check for Trees {
    fn part(&self) -> &'static str {
        "derivation-vs-tree"
    }
    fn max_len(&self) -> usize {
        3000
    }
    fn run(&self, bytes: &[u8]) -> CaseResult {
        let case = decode(bytes);
        let mut r = CaseResult::new(fnv(case.layouts[0].1.text.as_bytes()) ^ fnv(case.layouts[1].1.text.as_bytes()));
        r.evals = 2;
        let s1 = check_layout(&case.rendered, &case.layouts[0].1, &mut r);
        let s2 = check_layout(&case.rendered, &case.layouts[1].1, &mut r);
        if let (Some(a), Some(b)) = (s1, s2) {
            if a != b {
                r.fail("layout-dependent-shape", "two layouts of the same token sequence give different trees", json!({ "a": case.layouts[0].1.text, "b": case.layouts[1].1.text }));
            }
        }
        let interesting = case.prog.procs.iter().any(|p| p.body.iter().any(stmt_interesting));
        let inner_comment = case.layouts.iter().any(|(l, _)| {
            l.gaps.iter().enumerate().any(|(i, g)| !g.comments.is_empty() && i < case.rendered.toks.len() && !case.rendered.toks[i].site.ends_with(":first"))
        });
        r.nontrivial = interesting || inner_comment;
        if interesting {
            r.label("mixed-precedence-or-nested-if");
        }
        if inner_comment {
            r.label("comment-in-non-leading-gap");
        }
        r.label(format!("decls:{}", case.prog.order.len().min(9)));
        r
    }
    fn describe(&self, bytes: &[u8]) -> Value {
        let case = decode(bytes);
        json!({ "layout_a": case.layouts[0].1.text, "layout_b": case.layouts[1].1.text, "derivation": case.rendered.tree.sexpr() })
    }
}

pub fn checks() -> Vec<Box<dyn Check>> {
    vec![Box::new(Trees)]
}

pub fn run(ctx: &Ctx) -> i32 {
    let parts = vec![crate::corpus_part(ctx, &checks()), run_pbt(ctx, &Trees, ctx.n(30_000, 500_000))];
    finish(
        ctx,
        parts,
        "well-typed programs of 1-8 declarations generated from the grammar (expression depth up to 7, dangling-else shapes, nested accesses), each laid out twice (random whitespace incl. CRLF/tabs/blank lines and comment lines in any token gap; second layout of a random style); non-trivial = a binary expression with operands of another precedence level, an if nested directly in an if, or a comment in a non-leading gap; distinct = distinct pair of texts",
        &[
            "a node's range is expected to cover its own tokens plus the comment tokens directly in front of its first token, as the property states",
            "declarations are expected to collect the comments in front of them as documentation (text after `//` up to the line feed)",
        ],
        json!({}),
    )
}

//! C11 Formatting is idempotent, canonical and honours the indentation options.

use super::c09::gen_opts;
use super::fmt::{self, Formatted, Opts};
use crate::driver::*;
use serde_json::{json, Value};
use splgen::layout::{gen_layout, lay, Layout, Style};
use splgen::prog::*;
use splgen::render::render;
use splgen::src::{fnv, Src};

pub struct Case {
    pub text_a: String,
    pub text_b: String,
    pub o1: Opts,
    pub o2: Opts,
    pub depth: usize,
}

/// same comments in the same gaps, other whitespace
fn relayout(l: &Layout, s: &mut Src) -> Layout {
    let mut out = l.clone();
    for g in out.gaps.iter_mut() {
        g.pre = s.pick(&[" ", "\n", "  ", "\t", "\n\n", " \n  ", "", "\r\n"]).to_string();
        for c in g.comments.iter_mut() {
            c.1 = s.pick(&["", "  ", "\t", "\n"]).to_string();
        }
    }
    out.open_last_comment = false;
    out
}

fn stmt_depth(s: &Stmt) -> usize {
    match s {
        Stmt::If(_, t, e) => 1 + stmt_depth(t).max(e.as_ref().map_or(0, |e| stmt_depth(e))),
        Stmt::While(_, b) => 1 + stmt_depth(b),
        Stmt::Block(ss) => 1 + ss.iter().map(stmt_depth).max().unwrap_or(0),
        _ => 0,
    }
}

pub fn decode(bytes: &[u8]) -> Case {
    let mut s = Src::new(bytes);
    let cfg = GenCfg::default();
    let prog = gen_prog(&mut s, &cfg);
    let r = render(&prog);
    let style = *s.pick(&[Style::Spaced, Style::LeadingComments, Style::Commented, Style::Plain]);
    let mut l = gen_layout(&r.toks, &mut s, style);
    l.open_last_comment = false;
    let l2 = relayout(&l, &mut s);
    let text_a = lay(&r.toks, &l).text;
    let text_b = lay(&r.toks, &l2).text;
    let o1 = gen_opts(&mut s);
    let o2 = gen_opts(&mut s);
    let depth = prog.procs.iter().flat_map(|p| p.body.iter()).map(stmt_depth).max().unwrap_or(0);
    Case { text_a, text_b, o1, o2, depth }
}

/// (number of indentation units, rest of the line) for every line; Err on malformed indentation
fn split_indent<'a>(out: &'a str, o: Opts) -> Result<Vec<(usize, &'a str)>, String> {
    let unit = o.unit();
    let mut v = Vec::new();
    for (n, line) in out.lines().enumerate() {
        let content = line.trim_start_matches([' ', '\t']);
        let lead = &line[..line.len() - content.len()];
        if content.is_empty() {
            if !lead.is_empty() && !unit.is_empty() && lead.len() % unit.len() != 0 {
                return Err(format!("line {}: whitespace-only line {:?}", n + 1, line));
            }
            v.push((0, content));
            continue;
        }
        if unit.is_empty() {
            if !lead.is_empty() {
                return Err(format!("line {}: indentation {:?} although the indentation unit is empty (tab size 0)", n + 1, lead));
            }
            v.push((0, content));
            continue;
        }
        if lead.len() % unit.len() != 0 || lead != unit.repeat(lead.len() / unit.len()) {
            return Err(format!("line {}: indentation {:?} is not a whole number of the requested unit {:?}", n + 1, lead, unit));
        }
        v.push((lead.len() / unit.len(), content));
    }
    Ok(v)
}

fn nesting_problem(lines: &[(usize, &str)]) -> Option<String> {
    // a closing brace sits at the depth of the line that opened it; the line after an opening
    // brace is exactly one unit deeper (unless it closes the brace again)
    let mut stack: Vec<usize> = Vec::new();
    let mut prev: Option<(usize, &str)> = None;
    for (n, (k, content)) in lines.iter().enumerate() {
        if content.is_empty() {
            continue;
        }
        let is_comment = content.starts_with("//");
        if let Some((pk, pc)) = prev {
            let opens = pc.ends_with('{') && !pc.starts_with("//");
            if opens && !content.starts_with('}') && *k != pk + 1 {
                return Some(format!("line {} follows a line ending in `{{` (depth {}) but has depth {}", n + 1, pk, k));
            }
        }
        if !is_comment {
            if content.starts_with('}') {
                match stack.pop() {
                    Some(open) if open == *k => {}
                    Some(open) => return Some(format!("closing brace on line {} has depth {}, its opening line has depth {}", n + 1, k, open)),
                    None => return Some(format!("closing brace on line {} without an opening line", n + 1)),
                }
            }
            if content.ends_with('{') {
                stack.push(*k);
            }
        }
        prev = Some((*k, content));
    }
    None
}

pub struct Canonical;

impl Check for Canonical {
    fn part(&self) -> &'static str {
        "idempotent-canonical-options"
    }
    fn max_len(&self) -> usize {
        3500
    }
    fn run(&self, bytes: &[u8]) -> CaseResult {
        let case = decode(bytes);
        let mut r = CaseResult::new(fnv(case.text_a.as_bytes()) ^ fnv(format!("{:?}{:?}", case.o1, case.o2).as_bytes()));
        r.evals = 5;
        let detail = |extra: Value| json!({ "text_a": case.text_a, "text_b": case.text_b, "o1": format!("{:?}", case.o1), "o2": format!("{:?}", case.o2), "extra": extra });
        let run = |text: &str, o: Opts| fmt::format(text, o);
        let fa = match run(&case.text_a, case.o1) {
            Ok(f) => f,
            Err((sig, what)) => {
                r.fail(sig, what, detail(json!(null)));
                return r;
            }
        };
        let out_a = fmt::apply(&case.text_a, &fa);
        // the same unchanged document under the second option set, requested directly afterwards
        // (an answer must depend on the options of ITS request)
        let second = run(&case.text_a, case.o2);
        // null exactly when nothing would change
        if let Formatted::Edit(_, new_text) = &fa {
            if *new_text == case.text_a {
                r.fail("edit-without-change", "an edit is returned although the new text equals the document (null expected)", detail(json!(null)));
            }
        }
        // idempotence
        match run(&out_a, case.o1) {
            Ok(Formatted::Unchanged) => {}
            Ok(f2 @ Formatted::Edit(..)) => {
                let again = fmt::apply(&out_a, &f2);
                r.fail("not-idempotent", "formatting an already formatted document returns an edit", detail(json!({ "once": out_a, "twice": again })));
            }
            Err((sig, what)) => r.fail(sig, what, detail(json!({ "once": out_a }))),
        }
        // null precisely when nothing would change: a document that only differs from its
        // canonical form by whitespace at its very end must still get an edit
        let mut s2 = Src::new(bytes);
        let perturbed = match s2.below(4) {
            0 => format!("{}\n", out_a),
            1 => format!("{}  ", out_a),
            2 => out_a.trim_end_matches('\n').to_string(),
            _ => format!("\n{}", out_a),
        };
        if perturbed != out_a {
            match run(&perturbed, case.o1) {
                Ok(Formatted::Unchanged) => r.fail(
                    "null-although-not-canonical",
                    "no edit is returned for a document that differs from its formatted form (only whitespace at its beginning or end)",
                    detail(json!({ "document": perturbed, "canonical": out_a })),
                ),
                Ok(f2 @ Formatted::Edit(..)) => {
                    let again = fmt::apply(&perturbed, &f2);
                    if again != out_a {
                        r.fail("layout-dependent", "a formatted document with extra whitespace at its beginning or end formats to a different text", detail(json!({ "document": perturbed, "formatted": again, "canonical": out_a })));
                    }
                }
                Err((sig, what)) => r.fail(sig, what, detail(json!({ "document": perturbed }))),
            }
        }
        // two layouts of the same tokens and comments format to the same text
        match run(&case.text_b, case.o1) {
            Ok(fb) => {
                let out_b = fmt::apply(&case.text_b, &fb);
                if matches!(fa, Formatted::Unchanged) && case.text_a != out_b {
                    r.fail("null-although-not-canonical", "no edit is returned although another layout of the same tokens formats to a different text", detail(json!({ "a": case.text_a, "canonical": out_b })));
                }
                if out_b != out_a {
                    r.fail("layout-dependent", "two programs that differ only in whitespace format to different texts", detail(json!({ "a": out_a, "b": out_b })));
                }
            }
            Err((sig, what)) => r.fail(sig, what, detail(json!(null))),
        }
        // indentation unit and option relation
        let la = split_indent(&out_a, case.o1);
        match &la {
            Err(e) => r.fail("indentation-unit", e.clone(), detail(json!({ "formatted": out_a }))),
            Ok(lines) => {
                if !case.o1.unit().is_empty() {
                    if let Some(p) = nesting_problem(lines) {
                        r.fail("nesting", p, detail(json!({ "formatted": out_a })));
                    }
                }
            }
        }
        match second {
            Ok(f2) => {
                let out2 = fmt::apply(&case.text_a, &f2);
                match (&la, split_indent(&out2, case.o2)) {
                    (Ok(a), Ok(b)) => {
                        let same = if case.o1.unit().is_empty() || case.o2.unit().is_empty() {
                            a.iter().map(|x| x.1).eq(b.iter().map(|x| x.1))
                        } else {
                            a == &b
                        };
                        if !same {
                            r.fail("options-change-more-than-indentation", "outputs under two options differ in more than the indentation unit", detail(json!({ "o1": out_a, "o2": out2 })));
                        }
                    }
                    (_, Err(e)) => r.fail("indentation-unit", e, detail(json!({ "formatted": out2 }))),
                    _ => {}
                }
            }
            Err((sig, what)) => r.fail(sig, what, detail(json!(null))),
        }
        r.nontrivial = case.depth >= 2 && (case.o1 != Opts { insert_spaces: true, tab_size: 4 });
        r.label(format!("depth:{}", case.depth.min(6)));
        r.label(if case.o1.insert_spaces { format!("spaces:{}", case.o1.tab_size) } else { "tabs".to_string() });
        r
    }
    fn describe(&self, bytes: &[u8]) -> Value {
        let c = decode(bytes);
        json!({ "text_a": c.text_a, "text_b": c.text_b, "o1": format!("{:?}", c.o1), "o2": format!("{:?}", c.o2) })
    }
}

/// Real binary: formatting is a function of (text, options) of the request - one document, a
/// sequence of formatting requests under alternating option sets and across a change of the text;
/// every answer must equal the answer of the handler called in process for that text and options.
pub struct OptionSequence;

impl Check for OptionSequence {
    fn part(&self) -> &'static str {
        "binary-sequence-of-option-sets"
    }
    fn max_len(&self) -> usize {
        3500
    }
    fn shrink_iters(&self) -> u32 {
        300
    }
    fn run(&self, bytes: &[u8]) -> CaseResult {
        use crate::session::{self, RunOpts};
        let case = decode(bytes);
        let mut r = CaseResult::new(fnv(case.text_a.as_bytes()) ^ fnv(format!("{:?}{:?}", case.o1, case.o2).as_bytes()) ^ 0xb11);
        let uri = crate::srv::default_uri().to_string();
        let fparams = |o: Opts| json!({ "textDocument": { "uri": uri }, "options": { "tabSize": o.tab_size, "insertSpaces": o.insert_spaces } });
        // (id, text the request is about, options)
        let plan: Vec<(i64, &str, Opts)> = vec![(2, &case.text_a, case.o1), (3, &case.text_a, case.o2), (4, &case.text_a, case.o1), (5, &case.text_b, case.o2), (6, &case.text_b, case.o1), (7, &case.text_b, case.o1)];
        let mut msgs = vec![session::request(1, "initialize", session::initialize_params(false)), session::notification("initialized", json!({}))];
        msgs.push(session::notification("textDocument/didOpen", json!({ "textDocument": { "uri": uri, "languageId": "spl", "version": 1, "text": case.text_a } })));
        for (id, text, o) in &plan {
            if *id == 5 {
                msgs.push(session::notification("textDocument/didChange", json!({ "textDocument": { "uri": uri, "version": 2 }, "contentChanges": [{ "text": text }] })));
            }
            msgs.push(session::request(*id, "textDocument/formatting", fparams(*o)));
        }
        msgs.push(session::request(100, "shutdown", Value::Null));
        msgs.push(session::notification("exit", Value::Null));
        r.evals = plan.len() as u64;
        let chunks = session::one_chunk(&msgs);
        let opts = RunOpts { close_stdin: true, timeout_ms: super::c18::WATCHDOG_MS, read_delay_ms: 0 };
        let mut o = session::run(&chunks, &opts);
        let mut tries = 1;
        while o.timed_out && tries < 3 {
            o = session::run(&chunks, &opts);
            tries += 1;
        }
        let detail = |extra: Value| json!({ "text_a": case.text_a, "text_b": case.text_b, "o1": format!("{:?}", case.o1), "o2": format!("{:?}", case.o2), "extra": extra });
        if o.timed_out {
            r.fail("watchdog", "the server does not terminate (3 attempts)", detail(json!(null)));
            return r;
        }
        let responses = o.responses();
        for (id, text, opt) in &plan {
            let Some(resp) = responses.iter().find(|x| x["id"].as_i64() == Some(*id)) else {
                r.fail("no-response", format!("formatting request {} got no response (exit status {:?})", id, o.exit_code), detail(json!(null)));
                return r;
            };
            let got = match &resp["result"] {
                Value::Null => None,
                Value::Array(a) if a.len() == 1 => a[0]["newText"].as_str().map(|t| t.to_string()),
                other => {
                    r.fail("not-one-edit", format!("request {}: result is neither null nor one edit: {}", id, other.to_string().chars().take(200).collect::<String>()), detail(json!(null)));
                    return r;
                }
            };
            let want = match fmt::format(text, *opt) {
                Ok(Formatted::Unchanged) => None,
                Ok(Formatted::Edit(_, t)) => Some(t),
                Err((sig, what)) => {
                    r.fail(sig, what, detail(json!(null)));
                    return r;
                }
            };
            if got != want {
                r.fail(
                    "answer-depends-on-earlier-requests",
                    format!("request {} (options {:?}) in a sequence of formatting requests on one document is answered differently from the same request on a fresh server", id, opt),
                    detail(json!({ "request": id, "binary": got, "fresh": want })),
                );
                return r;
            }
        }
        r.nontrivial = case.o1 != case.o2;
        r
    }
    fn describe(&self, bytes: &[u8]) -> Value {
        let c = decode(bytes);
        json!({ "text_a": c.text_a, "text_b": c.text_b, "o1": format!("{:?}", c.o1), "o2": format!("{:?}", c.o2) })
    }
}

pub fn checks() -> Vec<Box<dyn Check>> {
    vec![Box::new(Canonical), Box::new(OptionSequence)]
}

pub fn run(ctx: &Ctx) -> i32 {
    let parts = vec![crate::corpus_part(ctx, &checks()), run_pbt(ctx, &Canonical, ctx.n(20_000, 300_000)), run_pbt(ctx, &OptionSequence, ctx.n(600, 12_000))];
    finish(
        ctx,
        parts,
        "syntactically valid programs in a random layout (with or without comments, comments in any gap) plus a re-layout of the same tokens and comments with other whitespace, two option sets (tabs; spaces 0..8, 10, 16, 33); checks: format(format(x)) is null, both layouts give the same text, an edit is never returned when the text is unchanged, every line is indented by a whole number of the requested unit, lines after `{` are one unit deeper, outputs under two options differ only in the unit (the second option set is requested directly after the first on the unchanged document); real binary: six formatting requests on one document under alternating option sets and across a full-text change, each answered like the same request on a fresh in-process server; non-trivial = nesting depth >= 2 and options other than 4 spaces; distinct = distinct (text, options); evaluations = formatting requests",
        &["with tab size 0 the unit is empty: then the check is that no line is indented and that the contents equal those under the other option"],
        json!({}),
    )
}

use crate::driver::*;

pub mod c01;
pub mod c03;
pub mod c04;
pub mod c05;
pub mod c06;
pub mod c07;
pub mod c08;
pub mod c08b;

pub fn dispatch(ctx: &Ctx, replay_file: Option<&str>) -> i32 {
    macro_rules! prop {
        ($m:ident) => {{
            if let Some(f) = replay_file {
                let cs = $m::checks();
                let refs: Vec<&dyn Check> = cs.iter().map(|c| c.as_ref()).collect();
                replay(ctx, &refs, f)
            } else {
                $m::run(ctx)
            }
        }};
    }
    match ctx.id.as_str() {
        "C01" => prop!(c01),
        "C03" => prop!(c03),
        "C04" => prop!(c04),
        "C05" => prop!(c05),
        "C06" => prop!(c06),
        "C07" => prop!(c07),
        "C08" => prop!(c08),
        other => {
            eprintln!("no check for property {}", other);
            2
        }
    }
}

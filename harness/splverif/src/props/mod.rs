use crate::driver::*;

pub mod c01;
pub mod c02;
pub mod c03;
pub mod c04;
pub mod c05;
pub mod c06;
pub mod c07;
pub mod c08;
pub mod c08b;
pub mod c09;
pub mod c10;
pub mod c11;
pub mod c12;
pub mod c13;
pub mod c14;
pub mod c15;
pub mod c16;
pub mod c17;
pub mod c18;
pub mod c19;
pub mod c20;
pub mod e2e;
pub mod fmt;
pub mod nav;

pub fn dispatch(ctx: &Ctx, replay_file: Option<&str>) -> i32 {
    macro_rules! prop {
        ($m:ident) => {{
            if let Some(f) = replay_file {
                let cs = $m::checks();
                let refs: Vec<&dyn Check> = cs.iter().map(|c| c.as_ref()).collect();
                replay(ctx, &refs, f)
            } else {
                $m::run(ctx)
            }
        }};
    }
    match ctx.id.as_str() {
        "C01" => prop!(c01),
        "C02" => prop!(c02),
        "C03" => prop!(c03),
        "C04" => prop!(c04),
        "C05" => prop!(c05),
        "C06" => prop!(c06),
        "C07" => prop!(c07),
        "C08" => prop!(c08),
        "C09" => prop!(c09),
        "C10" => prop!(c10),
        "C11" => prop!(c11),
        "C12" => prop!(c12),
        "C13" => prop!(c13),
        "C14" => prop!(c14),
        "C15" => prop!(c15),
        "C16" => prop!(c16),
        "C17" => prop!(c17),
        "C18" => prop!(c18),
        "C19" => prop!(c19),
        "C20" => prop!(c20),
        other => {
            eprintln!("no check for property {}", other);
            2
        }
    }
}

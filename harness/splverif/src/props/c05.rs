//! C05 A syntax error stays contained in the declaration it occurs in.

use crate::driver::*;
use crate::features;
use crate::srv::{self, Srv};
use crate::walk::{self, RNode};
use lsp_types::*;
use serde_json::{json, Value};
use spl_frontend::error::ErrorMessage;
use spl_frontend::table::SymbolTable;
use spl_frontend::{AnalyzedSource, ErrorContainer};
use splgen::layout::{gen_layout, lay, Laid, Style};
use splgen::lsp;
use splgen::prog::*;
use splgen::render::{render, Rendered, Role};
use splgen::src::{fnv, Src};
use std::ops::Range;

/// the SPL token alphabet without the declaration keywords `proc` and `type`
pub const ALPHABET: [&str; 40] = [
    "(", ")", "[", "]", "{", "}", "=", "#", "<", "<=", ">", ">=", ":=", ":", ",", ";", "+", "-", "*", "/", "if",
    "else", "while", "array", "of", "ref", "var", "int", "x", "zz", "0", "17", "0x1F", "'a'", "'\\n'", "@", "main",
    "printi", "0x", "'",
];

#[derive(Clone, Debug)]
pub enum Damage {
    Delete,
    InsertBefore(&'static str),
    Replace(&'static str),
}

pub struct Case {
    pub prog: Prog,
    pub rendered: Rendered,
    pub laid: Laid,
    pub target: usize,
    pub damage: Damage,
    pub damaged_text: String,
    /// byte extent of the damaged declaration in the damaged text
    pub extent: Range<usize>,
    pub damaged_decl: usize,
}

pub fn build_case(s: &mut Src, fixed: Option<(usize, usize, usize)>) -> Option<Case> {
    let cfg = GenCfg { max_decls: 6, budget: 120, ..GenCfg::default() };
    let prog = gen_prog(s, &cfg);
    if prog.order.len() < 2 {
        return None;
    }
    let rendered = render(&prog);
    let style = *s.pick(&[Style::Spaced, Style::Commented, Style::Plain, Style::LeadingComments]);
    let mut l = gen_layout(&rendered.toks, s, style);
    // in a quarter of the commented layouts every global declaration gets documentation comments
    // (what follows a damaged declaration must keep them)
    if style != Style::Plain && style != Style::Spaced && s.chance(1, 2) {
        for (i, t) in rendered.toks.iter().enumerate() {
            if t.site.starts_with("top.") && l.gaps[i].comments.is_empty() {
                l.gaps[i].comments.push((format!(" doc {}", i), String::new()));
            }
        }
    }
    let laid = lay(&rendered.toks, &l);
    let toks = &rendered.toks;
    let cands: Vec<usize> = (0..toks.len()).filter(|i| toks[*i].text != "proc" && toks[*i].text != "type").collect();
    let (target, op, sym) = match fixed {
        Some((t, o, y)) => (cands[t % cands.len()], o, y),
        None => {
            // a sixth of the damages hit the last token of a declaration that is followed by
            // another one (leaks across the boundary are likeliest there)
            let last_tokens: Vec<usize> = cands.iter().cloned().filter(|i| *i + 1 < toks.len() && toks[*i + 1].decl != toks[*i].decl).collect();
            let t = if !last_tokens.is_empty() && s.chance(1, 6) { last_tokens[s.below(last_tokens.len())] } else { cands[s.below(cands.len())] };
            (t, s.below(3), s.below(ALPHABET.len()))
        }
    };
    let damage = match op {
        0 => Damage::Delete,
        1 => Damage::InsertBefore(ALPHABET[sym]),
        _ => Damage::Replace(ALPHABET[sym]),
    };
    let r = laid.ranges[target].clone();
    let mut text = laid.text.clone();
    let (cut, ins): (Range<usize>, String) = match &damage {
        Damage::Delete => (r.clone(), " ".to_string()),
        Damage::InsertBefore(t) => (r.start..r.start, format!(" {} ", t)),
        Damage::Replace(t) => (r.clone(), format!(" {} ", t)),
    };
    text.replace_range(cut.clone(), &ins);
    let shift = |o: usize| if o >= cut.end { o + ins.len() - cut.len() } else { o };
    let decl = toks[target].decl;
    let first_of_decl = toks.iter().position(|t| t.decl == decl).unwrap();
    let next_first = toks.iter().position(|t| t.decl == decl + 1);
    let start_of = |i: usize| laid.gap_comments[i].first().map_or(laid.ranges[i].start, |(_, c)| c.start);
    let start = if first_of_decl == target { start_of(first_of_decl).min(cut.start) } else { start_of(first_of_decl) };
    let end = next_first.map_or(text.len(), |n| shift(start_of(n)));
    Some(Case { prog, rendered, laid, target, damage, damaged_text: text, extent: start..end, damaged_decl: decl })
}

fn decls_of(a: &AnalyzedSource) -> Vec<RNode> {
    walk::program(&a.ast).children
}

fn strip_sem(n: &RNode) -> RNode {
    // build / semantic diagnostics may legitimately change (a call to a now broken procedure);
    // only shape, values and relative ranges are compared
    RNode { kind: n.kind.clone(), range: n.range.clone(), doc: n.doc.clone(), errors: 0, children: n.children.iter().map(strip_sem).collect() }
}

/// Declaration with ranges relative to its first non-comment token. Comments that sat in front
/// of the damaged token may legitimately become leading comments (documentation) of the
/// declaration that follows; `drop_doc` ignores the documentation for that one neighbour.
fn normal(n: &RNode, drop_doc: bool) -> RNode {
    let lead = n.doc.as_ref().map_or(0, |d| d.len());
    let base = n.range.start + lead;
    fn rel(n: &RNode, by: usize) -> RNode {
        RNode {
            kind: n.kind.clone(),
            range: n.range.start.saturating_sub(by)..n.range.end.saturating_sub(by),
            doc: n.doc.clone(),
            errors: 0,
            children: n.children.iter().map(|c| rel(c, by)).collect(),
        }
    }
    let mut out = rel(n, base);
    if drop_doc {
        out.doc = None;
    }
    out
}

pub fn check_case(case: &Case, r: &mut CaseResult, with_features: bool) {
    let t0 = case.laid.text.clone();
    let t1 = case.damaged_text.clone();
    let detail = || json!({ "original": case.laid.text, "damaged": case.damaged_text, "damaged_declaration": case.damaged_decl, "damage": format!("{:?} token {} {:?}", case.damage, case.target, case.rendered.toks[case.target].text) });
    let (a0, a1) = match catch(move || (AnalyzedSource::new(t0), AnalyzedSource::new(t1))) {
        Ok(x) => x,
        Err(sig) => {
            r.fail(sig, "analysis panics on a program with one damaged token", detail());
            return;
        }
    };
    let errs = match catch(|| a1.errors()) {
        Ok(e) => e,
        Err(sig) => {
            r.fail(sig, "collecting diagnostics panics", detail());
            return;
        }
    };
    let d0 = decls_of(&a0);
    let d1 = decls_of(&a1);
    let k = case.damaged_decl;
    let n = d0.len();
    let before = k;
    let after = n - k - 1;
    let mut ok_shape = d1.len() >= before + after;
    if ok_shape {
        for i in 0..before {
            if normal(&d0[i], false) != normal(&d1[i], false) {
                ok_shape = false;
                r.fail("neighbour-reparsed-differently", format!("declaration {} (before the damaged one) is parsed differently: {} vs {}", i, d0[i].sexpr(), d1[i].sexpr()), detail());
                break;
            }
        }
        for j in 0..after {
            let x = &d0[n - 1 - j];
            let y = &d1[d1.len() - 1 - j];
            if normal(x, j + 1 == after) != normal(y, j + 1 == after) {
                ok_shape = false;
                r.fail("neighbour-reparsed-differently", format!("declaration {} from the end (after the damaged one) is parsed differently: {} vs {}", j, x.sexpr(), y.sexpr()), detail());
                break;
            }
        }
    } else {
        r.fail("declarations-lost", format!("{} declarations before the damage, {} after it", d0.len(), d1.len()), detail());
    }
    // symbol-table entries of the undamaged declarations (an inserted identifier may legitimately
    // become the damaged declaration's name and take over an entry: not compared then)
    let ident_damage = match case.damage {
        Damage::InsertBefore(t) | Damage::Replace(t) => t.chars().next().map_or(false, |c| c.is_ascii_alphabetic()),
        Damage::Delete => false,
    };
    for (i, d) in case.prog.order.iter().enumerate() {
        if i == k || ident_damage {
            continue;
        }
        let name = case.prog.decl_name(*d);
        // a damaged declaration that now declares the same name first would legitimately win
        let e0 = a0.table.lookup(name);
        let e1 = a1.table.lookup(name);
        match (e0, e1) {
            (Some(_), None) => r.fail("entry-lost", format!("undamaged declaration `{}` lost its symbol-table entry", name), detail()),
            (Some(x), Some(y)) => {
                use spl_frontend::table::GlobalEntry::*;
                let same_kind = matches!((x, y), (Type(_), Type(_)) | (Procedure(_), Procedure(_)));
                if !same_kind {
                    r.fail("entry-changed", format!("symbol-table entry of undamaged `{}` changed its kind", name), detail());
                }
            }
            _ => {}
        }
    }
    // syntax diagnostics stay inside the damaged declaration
    let mut syntax = 0;
    for e in &errs {
        if matches!(e.1, ErrorMessage::LexErrorMessage(_) | ErrorMessage::ParseErrorMessage(_)) {
            syntax += 1;
            if e.0.start < case.extent.start || e.0.end > case.extent.end {
                r.fail(
                    "syntax-diagnostic-leaks",
                    format!("syntax diagnostic {:?} at {:?} lies outside the damaged declaration {:?}", e.1.to_string().trim(), e.0, case.extent),
                    detail(),
                );
            }
        }
    }
    r.nontrivial = syntax > 0;
    if syntax > 0 {
        r.label("damage-produces-syntax-diagnostics");
    }
    // navigation in an undamaged declaration still answers as before
    // (not when the damage inserts an identifier: it may legitimately become a declaration name -
    // e.g. a second `main` - and change what names in other declarations resolve to)
    if with_features && ok_shape && !ident_damage {
        let toks = &case.rendered.toks;
        let cand: Vec<usize> = (0..toks.len())
            .filter(|i| toks[*i].decl != k && matches!(toks[*i].role, Role::Use(Bind::Param(..)) | Role::Use(Bind::Local(..)) | Role::Decl(Bind::Param(..)) | Role::Decl(Bind::Local(..))))
            .collect();
        if let Some(&i) = cand.first() {
            r.evals += 1;
            let u = srv::default_uri();
            let off0 = case.laid.ranges[i].start;
            // byte offset of the same token in the damaged text
            let r_t = case.laid.ranges[case.target].clone();
            let delta: isize = case.damaged_text.len() as isize - case.laid.text.len() as isize;
            let off1 = if off0 >= r_t.end { (off0 as isize + delta) as usize } else { off0 };
            let ask = |text: &str, off: usize| -> Result<(Option<String>, Option<(usize, usize)>), String> {
                let mut srv = Srv::new(false);
                srv.open(&u, text);
                let pos = lsp::pos_of(text, off);
                let hp = HoverParams { text_document_position_params: srv::tdp(&u, pos), work_done_progress_params: Default::default() };
                let doctx = srv.doctx.clone();
                let h = catch(|| srv::block_on(features::hover(doctx, hp)))?.map_err(|e| format!("handler-error:{}", e))?;
                let gp = GotoDefinitionParams { text_document_position_params: srv::tdp(&u, pos), work_done_progress_params: Default::default(), partial_result_params: Default::default() };
                let doctx = srv.doctx.clone();
                let g = catch(|| srv::block_on(features::goto::declaration(doctx, gp)))?.map_err(|e| format!("handler-error:{}", e))?;
                let hv = h.map(|h| match h.contents {
                    HoverContents::Markup(m) => m.value,
                    _ => String::new(),
                });
                let gv = g.map(|l| {
                    let a = lsp::offset_of(text, srv::from_lsp(l.range.start));
                    let b = lsp::offset_of(text, srv::from_lsp(l.range.end));
                    (a, b)
                });
                Ok((hv, gv))
            };
            match (ask(&case.laid.text, off0), ask(&case.damaged_text, off1)) {
                (Ok((h0, g0)), Ok((h1, g1))) => {
                    let g0s = g0.map(|(a, b)| case.laid.text[a..b].to_string());
                    let g1s = g1.map(|(a, b)| case.damaged_text.get(a..b).unwrap_or("?").to_string());
                    // the resolved type of a variable may depend on a damaged *type* declaration: then
                    // only the entity (kind marker and name before the colon) must stay the same
                    let type_damaged = matches!(case.prog.order[k], Decl::Type(_));
                    let head = |h: &Option<String>| h.as_ref().map(|s| s.split(':').next().unwrap_or("").to_string());
                    let hover_same = if type_damaged { head(&h0) == head(&h1) } else { h0 == h1 };
                    if !hover_same || g0s != g1s {
                        r.fail(
                            "navigation-changed",
                            format!("hover/goto on `{}` in an undamaged declaration changed: hover {:?} -> {:?}, declaration {:?} -> {:?}", toks[i].text, h0, h1, g0s, g1s),
                            detail(),
                        );
                    }
                }
                (Err(sig), _) | (_, Err(sig)) => r.fail(sig, "hover/goto fails on an undamaged declaration", detail()),
            }
        }
    }
}

pub struct Sampled;

impl Check for Sampled {
    fn part(&self) -> &'static str {
        "single-token-damage"
    }
    fn max_len(&self) -> usize {
        2000
    }
    fn run(&self, bytes: &[u8]) -> CaseResult {
        let mut s = Src::new(bytes);
        match build_case(&mut s, None) {
            None => {
                let mut r = CaseResult::new(fnv(bytes));
                r.excluded.push("fewer-than-two-declarations".into());
                r
            }
            Some(case) => {
                let mut r = CaseResult::new(fnv(case.damaged_text.as_bytes()) ^ fnv(case.laid.text.as_bytes()));
                r.label(match case.damage {
                    Damage::Delete => "delete",
                    Damage::InsertBefore(_) => "insert-before",
                    Damage::Replace(_) => "replace",
                });
                check_case(&case, &mut r, bytes.first().map_or(false, |b| b % 4 == 0));
                r
            }
        }
    }
    fn describe(&self, bytes: &[u8]) -> Value {
        let mut s = Src::new(bytes);
        match build_case(&mut s, None) {
            None => json!("fewer than two declarations"),
            Some(c) => json!({ "original": c.laid.text, "damaged": c.damaged_text, "damage": format!("{:?} at token {} {:?}", c.damage, c.target, c.rendered.toks[c.target].text), "damaged_declaration": c.damaged_decl }),
        }
    }
}

/// Exhaustive: program from the byte prefix, then (token index, operator, symbol) as explicit
/// trailing bytes: [.. program bytes .., hi(tok), lo(tok), op, sym]
pub struct Exhaustive;

fn decode_exh(bytes: &[u8]) -> Option<Case> {
    if bytes.len() < 4 {
        return None;
    }
    let (prog_bytes, tail) = bytes.split_at(bytes.len() - 4);
    let mut s = Src::new(prog_bytes);
    let t = ((tail[0] as usize) << 8) | tail[1] as usize;
    build_case(&mut s, Some((t, tail[2] as usize % 3, tail[3] as usize % ALPHABET.len())))
}

impl Check for Exhaustive {
    fn part(&self) -> &'static str {
        "all-damages-of-sample-programs"
    }
    fn max_len(&self) -> usize {
        2000
    }
    fn run(&self, bytes: &[u8]) -> CaseResult {
        match decode_exh(bytes) {
            None => {
                let mut r = CaseResult::new(fnv(bytes));
                r.excluded.push("fewer-than-two-declarations".into());
                r
            }
            Some(case) => {
                let mut r = CaseResult::new(fnv(case.damaged_text.as_bytes()) ^ fnv(case.laid.text.as_bytes()));
                check_case(&case, &mut r, false);
                r
            }
        }
    }
    fn describe(&self, bytes: &[u8]) -> Value {
        match decode_exh(bytes) {
            None => json!("fewer than two declarations"),
            Some(c) => json!({ "original": c.laid.text, "damaged": c.damaged_text, "damage": format!("{:?} at token {} {:?}", c.damage, c.target, c.rendered.toks[c.target].text) }),
        }
    }
}

/// all (token, operator, symbol) damages of `n_programs` programs derived from the seed
pub fn enumerate(ctx: &Ctx, n_programs: usize) -> Vec<Vec<u8>> {
    let mut out = Vec::new();
    let mut state = fnv(format!("c05-{}", ctx.seed).as_bytes());
    let mut k = 0;
    let mut tries = 0;
    while k < n_programs && tries < n_programs * 20 {
        tries += 1;
        let mut pb = Vec::with_capacity(300);
        for _ in 0..300 {
            state = state.wrapping_mul(6364136223846793005).wrapping_add(1442695040888963407);
            pb.push((state >> 33) as u8);
        }
        let mut s = Src::new(&pb);
        let Some(case) = build_case(&mut s, Some((0, 0, 0))) else { continue };
        let ncand = case.rendered.toks.iter().filter(|t| t.text != "proc" && t.text != "type").count();
        if ncand > 120 {
            continue;
        }
        k += 1;
        for t in 0..ncand {
            for op in 0..3usize {
                let syms = if op == 0 { 1 } else { ALPHABET.len() };
                for y in 0..syms {
                    let mut v = pb.clone();
                    v.extend([(t >> 8) as u8, (t & 255) as u8, op as u8, y as u8]);
                    out.push(v);
                }
            }
        }
    }
    out
}

pub fn checks() -> Vec<Box<dyn Check>> {
    vec![Box::new(Sampled), Box::new(Exhaustive)]
}

pub fn run(ctx: &Ctx) -> i32 {
    let mut parts = vec![crate::corpus_part(ctx, &checks())];
    let exh = enumerate(ctx, if ctx.thorough() { 150 } else { 6 });
    parts.push(run_list(ctx, &Exhaustive, "all-damages-of-sample-programs", &exh, false));
    parts.push(run_pbt(ctx, &Sampled, ctx.n(60_000, 1_000_000)));
    finish(
        ctx,
        parts,
        "valid programs with at least two global declarations; one token (never `proc`/`type`) of one declaration is deleted, replaced by, or preceded by a token of a 40-lexeme alphabet (all symbols and keywords except proc/type, identifiers, literals, an unknown character, `0x`, a lone tick); sampled randomly, and for a handful (thorough: 150) of seed-derived programs ALL tokens x operators x symbols are enumerated; non-trivial = the damage produces at least one syntax diagnostic; distinct = distinct (original, damaged) pair",
        &[
            "the undamaged declarations are compared by shape, values, documentation and ranges relative to their own start; build/semantic diagnostics in them may change (e.g. a call to the damaged procedure)",
            "between the declarations before and after the damaged one any number of error declarations may appear",
            "navigation (hover, go-to-declaration) is compared on a parameter/local occurrence of an undamaged declaration for a quarter of the sampled cases",
        ],
        json!({}),
    )
}

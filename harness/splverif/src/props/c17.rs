//! C17 Folding ranges match procedure extents.

use crate::driver::*;
use crate::features;
use crate::srv::{self, Srv};
use lsp_types::*;
use serde_json::{json, Value};
use splgen::layout::{gen_layout, lay, Style};
use splgen::lsp;
use splgen::prog::*;
use splgen::render::render;
use splgen::src::{fnv, Src};
use splgen::text;

fn fold(text: &str) -> Result<Vec<FoldingRange>, (String, String)> {
    let u = srv::default_uri();
    let mut srv = Srv::new(false);
    srv.open(&u, text);
    let params = FoldingRangeParams {
        text_document: TextDocumentIdentifier { uri: u.clone() },
        work_done_progress_params: Default::default(),
        partial_result_params: Default::default(),
    };
    let doctx = srv.doctx.clone();
    catch(|| srv::block_on(features::fold(doctx, params)))
        .map_err(|sig| (sig, "the folding handler panics".to_string()))?
        .map_err(|e| ("handler-error".to_string(), format!("the folding handler fails: {}", e)))
}

fn well_formed(text: &str, ranges: &[FoldingRange]) -> Option<String> {
    let n = lsp::line_count(text) as u32;
    let mut prev_end: Option<u32> = None;
    for (i, r) in ranges.iter().enumerate() {
        if r.start_line > r.end_line {
            return Some(format!("range {} starts on line {} after its end line {}", i, r.start_line, r.end_line));
        }
        if r.end_line >= n {
            return Some(format!("range {} ends on line {}, the document has {} lines", i, r.end_line, n));
        }
        if let Some(p) = prev_end {
            if r.start_line < p {
                return Some(format!("range {} (lines {}..{}) overlaps or precedes its predecessor ending on line {}", i, r.start_line, r.end_line, p));
            }
        }
        prev_end = Some(r.end_line);
    }
    None
}

pub struct Extents;

fn decode_prog(bytes: &[u8]) -> (String, Vec<(u32, u32)>) {
    let mut s = Src::new(bytes);
    let prog = gen_prog(&mut s, &GenCfg::default());
    let r = render(&prog);
    let style = *s.pick(&[Style::Commented, Style::Spaced, Style::Plain, Style::LeadingComments]);
    let l = gen_layout(&r.toks, &mut s, style);
    let mut laid = lay(&r.toks, &l);
    // classic Mac line ends: only where no comment depends on a line feed
    if laid.n_comments == 0 && s.chance(1, 4) {
        laid.text = laid.text.replace('\n', "\r");
    }
    let mut expected = Vec::new();
    for (di, d) in prog.order.iter().enumerate() {
        if let Decl::Proc(_) = d {
            let first = r.toks.iter().position(|t| t.decl == di).unwrap();
            let last = r.toks.iter().rposition(|t| t.decl == di).unwrap();
            let a = lsp::pos_of(&laid.text, laid.ranges[first].start).line;
            let b = lsp::pos_of(&laid.text, laid.ranges[last].end).line;
            expected.push((a, b));
        }
    }
    (laid.text, expected)
}

impl Check for Extents {
    fn part(&self) -> &'static str {
        "procedure-extents"
    }
    fn max_len(&self) -> usize {
        2500
    }
    fn run(&self, bytes: &[u8]) -> CaseResult {
        let (text, expected) = decode_prog(bytes);
        let mut r = CaseResult::new(fnv(text.as_bytes()));
        match fold(&text) {
            Err((sig, what)) => r.fail(sig, what, json!({ "text": text })),
            Ok(ranges) => {
                let got: Vec<(u32, u32)> = ranges.iter().map(|f| (f.start_line, f.end_line)).collect();
                if got != expected {
                    r.fail(
                        "wrong-folding-ranges",
                        format!("folding ranges {:?}, the procedures extend over lines {:?} (from the line of `proc` to the line of the last token)", got, expected),
                        json!({ "text": text }),
                    );
                }
                if let Some(p) = well_formed(&text, &ranges) {
                    r.fail("malformed-folding-ranges", p, json!({ "text": text }));
                }
            }
        }
        r.nontrivial = expected.len() >= 2 || expected.iter().any(|(a, b)| a != b);
        r.label(format!("procedures:{}", expected.len().min(6)));
        r
    }
    fn describe(&self, bytes: &[u8]) -> Value {
        let (text, expected) = decode_prog(bytes);
        json!({ "text": text, "expected": expected })
    }
}

pub struct AnyDocument;

fn decode_any(bytes: &[u8]) -> (String, String) {
    let mut s = Src::new(bytes);
    let (st, t) = text::gen_document(&mut s, &GenCfg { max_decls: 5, budget: 100, ..GenCfg::default() });
    let t = if s.chance(1, 3) { t.replace('\n', *s.pick(&["\r\n", "\r", "\n"])) } else { t };
    (st.name().to_string(), t)
}

impl Check for AnyDocument {
    fn part(&self) -> &'static str {
        "well-formed-on-any-document"
    }
    fn max_len(&self) -> usize {
        2000
    }
    fn run(&self, bytes: &[u8]) -> CaseResult {
        let (stratum, text) = decode_any(bytes);
        let mut r = CaseResult::new(fnv(text.as_bytes()));
        r.label(format!("stratum:{}", stratum));
        match fold(&text) {
            Err((sig, what)) => r.fail(sig, what, json!({ "text": text })),
            Ok(ranges) => {
                if let Some(p) = well_formed(&text, &ranges) {
                    r.fail("malformed-folding-ranges", p, json!({ "text": text }));
                }
                r.nontrivial = !ranges.is_empty() && stratum != "valid";
            }
        }
        r
    }
    fn describe(&self, bytes: &[u8]) -> Value {
        let (stratum, text) = decode_any(bytes);
        json!({ "stratum": stratum, "text": text })
    }
}

pub const E2E: super::e2e::EndToEnd = super::e2e::EndToEnd { part: "end-to-end-binary-vs-handler", methods: &["textDocument/foldingRange"] };

pub fn checks() -> Vec<Box<dyn Check>> {
    vec![Box::new(Extents), Box::new(AnyDocument), Box::new(E2E)]
}

pub fn run(ctx: &Ctx) -> i32 {
    let mut parts = vec![
        crate::corpus_part(ctx, &checks()),
        run_pbt(ctx, &Extents, ctx.n(30_000, 500_000)),
        run_pbt(ctx, &AnyDocument, ctx.n(15_000, 250_000)),
    ];
    parts.push(run_pbt(ctx, &E2E, ctx.n(400, 8_000)));
    finish(
        ctx,
        parts,
        "valid programs in any layout (comments, CRLF, several declarations per line): exactly one range per procedure, in source order, from the line of `proc` to the line of the last token under the client's line model; any document (valid, damaged, soup, Unicode; LF/CRLF/CR): start <= end < line count, sorted, not overlapping; non-trivial = at least two procedures or a multi-line procedure (part 1), a broken document that still yields ranges (part 2); distinct = distinct text",
        &["two ranges may share a boundary line (several procedures on one line)"],
        json!({}),
    )
}

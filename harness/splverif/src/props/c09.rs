//! C09 Formatting never changes the program.

use super::fmt::{self, Formatted, Opts};
use crate::driver::*;
use serde_json::{json, Value};
use spl_frontend::{AnalyzedSource, ErrorContainer};
use splgen::faults;
use splgen::layout::{gen_layout, lay, Style};
use splgen::prog::*;
use splgen::reflex;
use splgen::render::render;
use splgen::src::{fnv, Src};

pub struct Case {
    pub text: String,
    pub opts: Opts,
    pub faulty: Option<&'static str>,
    pub features: Vec<&'static str>,
}

pub fn gen_opts(s: &mut Src) -> Opts {
    if s.chance(1, 4) {
        Opts { insert_spaces: false, tab_size: s.below(9) as u32 }
    } else {
        Opts { insert_spaces: true, tab_size: *s.pick(&[4u32, 2, 0, 1, 3, 8, 5, 6, 7, 10, 16, 33]) }
    }
}

fn has_else_if(s: &Stmt) -> bool {
    match s {
        Stmt::If(_, t, e) => e.as_ref().map_or(false, |e| matches!(**e, Stmt::If(..)) || has_else_if(e)) || has_else_if(t),
        Stmt::While(_, b) => has_else_if(b),
        Stmt::Block(ss) => ss.iter().any(has_else_if),
        _ => false,
    }
}

fn has_bare_branch(s: &Stmt) -> bool {
    match s {
        Stmt::If(_, t, e) => !matches!(**t, Stmt::Block(_)) || e.as_ref().map_or(false, |e| !matches!(**e, Stmt::Block(_) | Stmt::If(..))) || has_bare_branch(t) || e.as_ref().map_or(false, |e| has_bare_branch(e)),
        Stmt::While(_, b) => !matches!(**b, Stmt::Block(_)) || has_bare_branch(b),
        Stmt::Block(ss) => ss.iter().any(has_bare_branch),
        _ => false,
    }
}

pub fn decode(bytes: &[u8]) -> Case {
    let mut s = Src::new(bytes);
    let cfg = GenCfg::default();
    let base = gen_prog(&mut s, &cfg);
    // well-typed or not: a quarter of the programs carry one semantic fault
    let (prog, faulty) = if s.chance(1, 4) {
        let k = 10 + s.below(17); // statement-level kinds
        match faults::inject(&mut s, &base, k) {
            Some(f) => (f.prog, Some(f.kind)),
            None => (base, None),
        }
    } else {
        (base, None)
    };
    let r = render(&prog);
    let style = *s.pick(&[Style::LeadingComments, Style::Spaced, Style::LeadingComments, Style::Plain]);
    let l = gen_layout(&r.toks, &mut s, style);
    let text = lay(&r.toks, &l).text;
    let opts = gen_opts(&mut s);
    let mut features = Vec::new();
    if r.toks.iter().any(|t| t.text.starts_with("0x") || t.text.starts_with('\'')) {
        features.push("hex-or-char-literal");
    }
    if prog.procs.iter().any(|p| p.body.iter().any(has_else_if)) {
        features.push("else-if-chain");
    }
    if prog.procs.iter().any(|p| p.body.iter().any(has_bare_branch)) {
        features.push("branch-without-block");
    }
    if prog.procs.iter().any(|p| p.body.is_empty() && p.locals.is_empty()) {
        features.push("empty-body");
    }
    Case { text, opts, faulty, features }
}

/// (message, ordinal of the last code token starting at or before the start, same for the end)
fn located(text: &str) -> Result<Vec<(String, isize, isize)>, String> {
    let t = text.to_string();
    let errs = catch(move || AnalyzedSource::new(t).errors())?;
    let code: Vec<_> = reflex::lex(text).into_iter().filter(|t| !t.is_comment()).collect();
    let ord = |o: usize| code.iter().rposition(|t| t.range.start <= o).map_or(-1, |i| i as isize);
    let mut v: Vec<_> = errs.iter().map(|e| (e.1.to_string().trim().to_string(), ord(e.0.start), ord(e.0.end.saturating_sub(if e.0.is_empty() { 0 } else { 1 })))).collect();
    v.sort();
    Ok(v)
}

pub fn check(case: &Case, r: &mut CaseResult) -> Option<String> {
    let detail = |extra: Value| json!({ "text": case.text, "options": format!("{:?}", case.opts), "extra": extra });
    let f = match fmt::format(&case.text, case.opts) {
        Ok(f) => f,
        Err((sig, what)) => {
            r.fail(sig, what, detail(json!(null)));
            return None;
        }
    };
    if let Formatted::Edit(range, _) = &f {
        if let Some(p) = fmt::whole_document_problem(&case.text, range) {
            r.fail("edit-not-whole-document", p, detail(json!(null)));
        }
    }
    let out = fmt::apply(&case.text, &f);
    let before = fmt::code_tokens(&case.text);
    let after = fmt::code_tokens(&out);
    if before != after {
        let i = before.iter().zip(&after).position(|(a, b)| a != b).unwrap_or(before.len().min(after.len()));
        r.fail(
            "token-sequence-changed",
            format!("formatting changed the program: token {} was {:?}, is {:?} ({} -> {} tokens)", i, before.get(i), after.get(i), before.len(), after.len()),
            detail(json!({ "formatted": out })),
        );
        return Some(out);
    }
    match (located(&case.text), located(&out)) {
        (Ok(a), Ok(b)) => {
            if a != b {
                r.fail("diagnostics-changed", format!("diagnostics before {:?}, after formatting {:?}", a, b), detail(json!({ "formatted": out })));
            }
        }
        (Err(sig), _) | (_, Err(sig)) => r.fail(sig, "analysis panics", detail(json!({ "formatted": out }))),
    }
    Some(out)
}

pub struct Preserve;

impl Check for Preserve {
    fn part(&self) -> &'static str {
        "format-preserves-program"
    }
    fn max_len(&self) -> usize {
        2500
    }
    fn run(&self, bytes: &[u8]) -> CaseResult {
        let case = decode(bytes);
        let mut r = CaseResult::new(fnv(case.text.as_bytes()) ^ fnv(format!("{:?}", case.opts).as_bytes()));
        for f in &case.features {
            r.label(*f);
        }
        if case.faulty.is_some() {
            r.label("semantically-faulty");
        }
        r.label(if case.opts.insert_spaces { format!("spaces:{}", case.opts.tab_size) } else { "tabs".to_string() });
        check(&case, &mut r);
        r.nontrivial = !case.features.is_empty();
        r
    }
    fn describe(&self, bytes: &[u8]) -> Value {
        let c = decode(bytes);
        json!({ "text": c.text, "options": format!("{:?}", c.opts), "fault": c.faulty })
    }
}

pub const E2E: super::e2e::EndToEnd = super::e2e::EndToEnd { part: "end-to-end-binary-vs-handler", methods: &["textDocument/formatting"] };

pub fn checks() -> Vec<Box<dyn Check>> {
    vec![Box::new(Preserve), Box::new(E2E)]
}

pub fn run(ctx: &Ctx) -> i32 {
    let mut parts = vec![crate::corpus_part(ctx, &checks()), run_pbt(ctx, &Preserve, ctx.n(20_000, 300_000))];
    parts.push(run_pbt(ctx, &E2E, ctx.n(400, 8_000)));
    finish(
        ctx,
        parts,
        "syntactically valid programs (three quarters well-typed, one quarter with one injected semantic fault) in random layouts with comments in leading positions x formatting options (tabs; spaces with tab sizes 0..8, 10, 16, 33); the response must be null or one edit replacing exactly the whole document under the client model; the applied result must have the same sequence of non-comment tokens (kinds and literal values, by an independent lexer) and the same diagnostics (messages and positions counted in code tokens); non-trivial = hex/char literal, else-if chain, branch without block or empty body present; distinct = distinct (text, options)",
        &["comments only in leading positions (other positions are C10's subject)", "diagnostic positions are compared as ordinals of non-comment tokens because formatting moves whitespace"],
        json!({}),
    )
}

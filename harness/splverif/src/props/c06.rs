//! C06 Tokenisation is lossless and follows the SPL lexical grammar.

use crate::driver::*;
use crate::lexglue::*;
use serde_json::{json, Value};
use spl_frontend::lexer;
use splgen::prog::GenCfg;
use splgen::reflex;
use splgen::src::{fnv, Src};
use splgen::text;

/// lexemes that are lexically valid SPL
const VALID_LEXEMES: [&str; 72] = [
    "(", ")", "[", "]", "{", "}", "=", "#", "<", "<=", ">", ">=", ":=", ":", ",", ";", "+", "-", "*", "/", "if",
    "else", "while", "array", "of", "proc", "ref", "type", "var", "int", "main", "x", "iff", "typ", "elsee", "_",
    "_if", "x1", "of_", "0", "7", "42", "007", "2147483647", "0x1F", "0xff", "0x0", "'a'", "'\\n'", "' '", "'/'",
    "// c\n", "var1", "if2", "of3", "proc0", "while9", "'\"'", "'\\'", "0x7fffffff", "0x000000001", "0x00000000000ff", "0x123456789", "99999999999", "4294967295", "0xFFFFFFFF",
    // case matters: only a lower-case `x` makes a hexadecimal literal, only lower-case keywords are keywords
    "0X1F", "0Xff", "0X", "IF", "While", "Proc",
];
const VALID_SEPS: [&str; 9] = ["", " ", " ", "\n", "\t", "\r\n", "  ", "\n\n", " \n "];
const EXH_ALPHABET: [&str; 16] = ["a", "i", "f", "0", "x", "1", "<", "=", ":", "/", "'", " ", "\n", "é", "😀", "\\n"];

fn decode_text(s: &mut Src) -> (String, String) {
    match s.below(10) {
        0..=2 => ("unicode".into(), text::unicode(s, 200)),
        3..=4 => ("soup".into(), text::soup(s, 80)),
        5 => {
            let (st, t) = text::gen_document(s, &GenCfg::default());
            (format!("doc-{}", st.name()), t)
        }
        _ => {
            // lexeme concatenation with arbitrary separators
            let n = s.below(40);
            let mut t = String::new();
            for _ in 0..n {
                t.push_str(VALID_LEXEMES[s.below(VALID_LEXEMES.len())]);
                t.push_str(VALID_SEPS[s.below(VALID_SEPS.len())]);
            }
            if s.chance(1, 6) {
                t.push_str("// open comment");
            }
            ("lexemes".into(), t)
        }
    }
}

pub fn check_text(text: &str, r: &mut CaseResult) {
    let toks = match catch(|| lexer::lex(text)) {
        Ok(t) => t,
        Err(sig) => {
            r.fail(sig, "tokenisation panics", json!({ "text": text }));
            return;
        }
    };
    if let Some(v) = tiling_violation(text, &toks) {
        r.fail("tiling", v, json!({ "text": text }));
    }
    let reference = reflex::lex(text);
    // lexically valid text, or text whose only flaw are literals that do not fit 32 bits: longest
    // match still makes each of them one token
    let comparable = reference.iter().all(|t| {
        t.is_lexically_valid()
            || (matches!(t.kind, reflex::RKind::Int(None)) && !t.range.is_empty())
            || (matches!(t.kind, reflex::RKind::Hex(None)) && t.range.len() > 2)
    });
    if comparable {
        r.label("conformance-checked");
        if let Some(v) = conformance_violation(text, &toks, &reference) {
            r.fail("conformance", v, json!({ "text": text }));
        }
    } else {
        r.label("lexically-invalid(tiling only)");
    }
    r.nontrivial = reference.len() >= 3
        && (text.chars().any(|c| c.len_utf8() > 1)
            || reference.iter().any(|t| matches!(t.kind, reflex::RKind::Comment(_) | reflex::RKind::Hex(_) | reflex::RKind::Char(..)))
            || reference.windows(2).any(|w| w[0].range.end == w[1].range.start && w[1].kind != reflex::RKind::Eof));
}

pub struct Random;

impl Check for Random {
    fn part(&self) -> &'static str {
        "random-texts"
    }
    fn max_len(&self) -> usize {
        1500
    }
    fn run(&self, bytes: &[u8]) -> CaseResult {
        let mut s = Src::new(bytes);
        let (stratum, text) = decode_text(&mut s);
        let mut r = CaseResult::new(fnv(text.as_bytes()));
        r.label(format!("stratum:{}", stratum));
        check_text(&text, &mut r);
        r
    }
    fn describe(&self, bytes: &[u8]) -> Value {
        let mut s = Src::new(bytes);
        let (stratum, text) = decode_text(&mut s);
        json!({ "stratum": stratum, "text": text })
    }
}

/// Raw bytes as text (libFuzzer target): lossy UTF-8 decoding, both oracles.
pub struct RawText;

impl Check for RawText {
    fn part(&self) -> &'static str {
        "raw-utf8-text"
    }
    fn max_len(&self) -> usize {
        400
    }
    fn run(&self, bytes: &[u8]) -> CaseResult {
        let text = String::from_utf8_lossy(bytes).to_string();
        let mut r = CaseResult::new(fnv(text.as_bytes()));
        check_text(&text, &mut r);
        r
    }
    fn describe(&self, bytes: &[u8]) -> Value {
        json!({ "text": String::from_utf8_lossy(bytes) })
    }
}

/// Explicit strings over EXH_ALPHABET: each byte selects one symbol (monotone map).
pub struct Explicit;

fn decode_explicit(bytes: &[u8]) -> String {
    bytes.iter().map(|b| EXH_ALPHABET[(*b as usize * EXH_ALPHABET.len()) >> 8]).collect()
}

impl Check for Explicit {
    fn part(&self) -> &'static str {
        "exhaustive-short-texts"
    }
    fn max_len(&self) -> usize {
        6
    }
    fn run(&self, bytes: &[u8]) -> CaseResult {
        let text = decode_explicit(bytes);
        let mut r = CaseResult::new(fnv(text.as_bytes()));
        check_text(&text, &mut r);
        r
    }
    fn describe(&self, bytes: &[u8]) -> Value {
        json!({ "text": decode_explicit(bytes) })
    }
}

pub fn enumerate(max_len: usize) -> Vec<Vec<u8>> {
    let n = EXH_ALPHABET.len();
    let mut out: Vec<Vec<u8>> = vec![vec![]];
    let mut frontier: Vec<Vec<u8>> = vec![vec![]];
    for _ in 0..max_len {
        let mut next = Vec::new();
        for f in &frontier {
            for i in 0..n {
                let mut v = f.clone();
                v.push(byte_for(i, n));
                next.push(v);
            }
        }
        out.extend(next.iter().cloned());
        frontier = next;
    }
    out
}

pub fn checks() -> Vec<Box<dyn Check>> {
    vec![Box::new(Random), Box::new(Explicit), Box::new(RawText)]
}

pub fn run(ctx: &Ctx) -> i32 {
    let mut parts = Vec::new();
    parts.push(crate::corpus_part(ctx, &checks()));
    let exh = enumerate(if ctx.thorough() { 5 } else { 4 });
    parts.push(run_list(ctx, &Explicit, "exhaustive-short-texts", &exh, true));
    parts.push(run_pbt(ctx, &Random, ctx.n(200_000, 4_000_000)));
    if ctx.thorough() {
        parts.push(fuzz_part(ctx, "c06_lex_raw", &RawText, 3_000_000, 400));
    }
    finish(
        ctx,
        parts,
        "texts from four strata (arbitrary Unicode incl. control/astral characters, token soup with broken literals, generated documents, concatenations of valid SPL lexemes with arbitrary separators) plus all strings up to length 4 (5 in thorough) over a 16-symbol alphabet; non-trivial = at least 2 tokens and a multi-byte character, comment, hex/char literal or two adjacent tokens without separator; distinct = distinct text",
        &[
            "whitespace between tokens is judged with Unicode White_Space (the lexer itself skips only space, tab, CR, LF)",
            "conformance is compared only on texts the reference lexer finds lexically valid; a comment token may or may not include its terminating line feed",
            "decimal literals are compared up to 2^32-1 (u32), as both the server and the reference parse them",
        ],
        json!({}),
    )
}

//! End-to-end agreement: the real binary's answer to a request equals the answer of the handler
//! the property is about, called in process with the same params. Engine A alone cannot see a
//! dispatch or serialisation error in `server.rs` / `io.rs` (e.g. `definition` routed to another
//! handler, a response carrying the wrong id); this part closes that gap for every feature property.

use super::c18::{supported_params, WATCHDOG_MS};
use super::c19::canonical;
use super::nav;
use crate::driver::*;
use crate::features;
use crate::session::{self, RunOpts};
use crate::srv::{self, Srv};
use lsp_types::Url;
use serde_json::{json, Value};
use splgen::layout::Style;
use splgen::prog::GenCfg;
use splgen::src::{fnv, Src};

/// the handler a method must be answered by, called like `server.rs` does (params from JSON)
pub fn in_process(method: &str, srv: &Srv, params: Value) -> Result<Value, String> {
    macro_rules! call {
        ($f:path) => {{
            let doctx = srv.doctx.clone();
            let args = serde_json::from_value(params).map_err(|e| format!("harness: params do not deserialize: {}", e))?;
            let out = catch(|| srv::block_on($f(doctx, args)))?;
            let v = out.map_err(|e| format!("handler-error: {}", e))?;
            Ok(serde_json::to_value(v).unwrap_or(Value::Null))
        }};
    }
    match method {
        "textDocument/declaration" => call!(features::goto::declaration),
        "textDocument/definition" => call!(features::goto::definition),
        "textDocument/implementation" => call!(features::goto::implementation),
        "textDocument/typeDefinition" => call!(features::goto::type_definition),
        "textDocument/references" => call!(features::references::find),
        "textDocument/hover" => call!(features::hover),
        "textDocument/rename" => call!(features::references::rename),
        "textDocument/prepareRename" => call!(features::references::prepare_rename),
        "textDocument/completion" => call!(features::completion::propose),
        "textDocument/foldingRange" => call!(features::fold),
        "textDocument/semanticTokens/full" => call!(features::semantic_tokens),
        "textDocument/signatureHelp" => call!(features::signature_help),
        "textDocument/formatting" => call!(features::format),
        other => Err(format!("harness: unknown method {}", other)),
    }
}

pub struct EndToEnd {
    pub part: &'static str,
    pub methods: &'static [&'static str],
}

struct Plan {
    text: String,
    uri: String,
    requests: Vec<(i64, &'static str, Value)>,
}

impl EndToEnd {
    fn plan(&self, bytes: &[u8]) -> (nav::World, Plan) {
        let mut s = Src::new(bytes);
        let cfg = GenCfg { max_decls: 6, budget: 120, ..GenCfg::default() };
        let w = nav::build_world(&mut s, &cfg, &[Style::Commented, Style::Spaced, Style::Plain]);
        let uri = w.uri.to_string();
        let mut requests = Vec::new();
        let mut id = 1i64;
        let idents = w.ident_tokens(&mut s, 5);
        let mut positions: Vec<splgen::lsp::Pos> = idents.iter().map(|i| w.pos_at(w.laid.ranges[*i].start)).collect();
        // a call's argument list, a statement start and a position outside the text
        if let Some(i) = (0..w.rendered.toks.len()).find(|i| w.tok(*i).site == "call:lparen") {
            positions.push(w.pos_at(w.laid.ranges[i].end));
        }
        if let Some(i) = (0..w.rendered.toks.len()).find(|i| w.tok(*i).stmt_start) {
            positions.push(w.pos_at(w.laid.ranges[i].start));
        }
        positions.push(splgen::lsp::Pos { line: 9999, character: 0 });
        for p in positions {
            for m in self.methods {
                id += 1;
                requests.push((id, *m, supported_params(m, &uri, p.line, p.character)));
            }
        }
        let text = w.text().to_string();
        (w, Plan { text, uri, requests })
    }
}

impl Check for EndToEnd {
    fn part(&self) -> &'static str {
        self.part
    }
    fn max_len(&self) -> usize {
        2000
    }
    fn shrink_iters(&self) -> u32 {
        300
    }
    fn run(&self, bytes: &[u8]) -> CaseResult {
        let (w, plan) = self.plan(bytes);
        let mut r = CaseResult::new(fnv(plan.text.as_bytes()));
        r.evals = plan.requests.len() as u64;
        let mut msgs = vec![session::request(1, "initialize", session::initialize_params(false)), session::notification("initialized", json!({}))];
        msgs.push(session::notification("textDocument/didOpen", json!({ "textDocument": { "uri": plan.uri, "languageId": "spl", "version": 1, "text": plan.text } })));
        for (id, m, p) in &plan.requests {
            msgs.push(session::request(*id, m, p.clone()));
        }
        msgs.push(session::request(1_000_000, "shutdown", Value::Null));
        msgs.push(session::notification("exit", Value::Null));
        let chunks = session::one_chunk(&msgs);
        let opts = RunOpts { close_stdin: true, timeout_ms: WATCHDOG_MS, read_delay_ms: 0 };
        let mut o = session::run(&chunks, &opts);
        let mut tries = 1;
        while o.timed_out && tries < 3 {
            o = session::run(&chunks, &opts);
            tries += 1;
        }
        let detail = |extra: Value| json!({ "text": plan.text, "extra": extra, "stderr": o.stderr.chars().take(300).collect::<String>() });
        if o.timed_out {
            r.fail("watchdog", "the server does not terminate (3 attempts)", detail(json!(null)));
            return r;
        }
        let responses = o.responses();
        for (id, m, p) in &plan.requests {
            let want = match in_process(m, &w.srv, p.clone()) {
                Ok(v) => v,
                Err(sig) => {
                    r.fail(format!("{}|{}", sig, m), format!("{} fails in process", m), detail(json!({ "params": p })));
                    return r;
                }
            };
            let Some(resp) = responses.iter().find(|x| x["id"].as_i64() == Some(*id)) else {
                r.fail(format!("no-response|{}", m), format!("request {} ({}) got no response from the binary (exit status {:?})", id, m, o.exit_code), detail(json!({ "params": p })));
                return r;
            };
            let got = resp.get("result").cloned().unwrap_or(Value::Null);
            if resp.get("error").is_some() || canonical(&got) != canonical(&want) {
                r.fail(
                    format!("binary-disagrees-with-handler|{}", m),
                    format!("the binary answers {} differently from the {} handler called in process with the same params", m, m),
                    detail(json!({ "params": p, "binary": resp.to_string().chars().take(500).collect::<String>(), "handler": want.to_string().chars().take(500).collect::<String>() })),
                );
                return r;
            }
        }
        r.nontrivial = plan.requests.len() >= 4;
        r
    }
    fn describe(&self, bytes: &[u8]) -> Value {
        let (_, plan) = self.plan(bytes);
        json!({ "text": plan.text, "requests": plan.requests.iter().map(|(i, m, p)| json!([i, m, p])).collect::<Vec<_>>() })
    }
}

pub fn uri_of(u: &Url) -> String {
    u.to_string()
}

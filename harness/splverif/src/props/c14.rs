//! C14 Hover and signature help tell the truth about declarations.

use super::nav::{self, World};
use crate::driver::*;
use lsp_types::*;
use serde_json::{json, Value};
use splgen::layout::Style;
use splgen::prog::*;
use splgen::render::Role;
use splgen::src::{fnv, Src};

const STYLES: [Style; 4] = [Style::Commented, Style::Spaced, Style::LeadingComments, Style::Plain];

fn world(bytes: &[u8]) -> (World, Src<'_>) {
    let mut s = Src::new(bytes);
    let cfg = GenCfg { max_decls: 7, budget: 160, ..GenCfg::default() };
    let w = nav::build_world(&mut s, &cfg, &STYLES);
    (w, s)
}

/// accepted renderings of the signature of the entity `b` (the statement does not fix whether a
/// type is shown with a `type name = ` prefix)
pub fn signatures(w: &World, b: Bind) -> Vec<String> {
    match b {
        Bind::Type(i) => {
            let t = &w.prog.types[i];
            vec![t.ty.show(), format!("type {} = {}", t.name, t.ty.show()), format!("type {} = {};", t.name, t.ty.show())]
        }
        Bind::BuiltinInt => vec!["int".to_string(), "type int = int".to_string()],
        Bind::Proc(j) => vec![w.prog.proc_signature(j)],
        Bind::BuiltinProc(k) => vec![builtin_signature(k)],
        Bind::Param(j, k) => vec![var_signature(&w.prog.procs[j].params[k])],
        Bind::Local(j, k) => {
            let v = &w.prog.procs[j].locals[k];
            vec![var_signature(v), format!("var {}", var_signature(v))]
        }
        Bind::Unbound => vec![],
    }
}

/// the shown signature and the text behind it: the content of a leading fenced code block (any
/// language tag), or - without a fence - the first paragraph
fn code_block(markdown: &str) -> Option<(&str, &str)> {
    if let Some(rest) = markdown.strip_prefix("```") {
        let nl = rest.find('\n')?;
        let rest = &rest[nl + 1..];
        let end = rest.find("\n```")?;
        return Some((&rest[..end], &rest[end + 4..]));
    }
    match markdown.find("\n\n") {
        Some(end) => Some((&markdown[..end], &markdown[end..])),
        None if !markdown.trim().is_empty() => Some((markdown, "")),
        None => None,
    }
}

fn lexemes(text: &str) -> Vec<String> {
    splgen::reflex::lex(text).into_iter().filter(|t| t.kind != splgen::reflex::RKind::Eof).map(|t| text[t.range.clone()].to_string()).collect()
}

/// Does `shown` present the signature `canonical` (one of the renderings of `signatures`)?
/// Compared as token sequences: the canonical tokens must occur contiguously in what is shown, so
/// that decoration the statement does not fix (a `var` / `proc` / `type x =` prefix, a trailing
/// `;`, a kind marker in parentheses, other spacing) is accepted, while a wrong name, a missing or
/// spurious `ref`, a wrong or unresolved type or a wrong parameter list is not.
fn shows_signature(shown: &str, canonical: &str) -> bool {
    let have = lexemes(shown);
    let mut want = lexemes(canonical);
    // the leading keyword of a canonical rendering is decoration
    if matches!(want.first().map(|s| s.as_str()), Some("proc") | Some("var") | Some("type")) && want.len() > 1 && want[1] != "=" {
        want.remove(0);
    }
    if want.is_empty() || have.len() < want.len() {
        return false;
    }
    let starts_with_ref = want[0] == "ref";
    (0..=have.len() - want.len()).any(|i| {
        have[i..i + want.len()] == want[..]
            // a reference marker that is not declared must not be shown in front of the name
            && (starts_with_ref || i == 0 || have[i - 1] != "ref")
            // a type is not followed by a further `of` / `[` (the shown type would be another one)
            && have.get(i + want.len()).map_or(true, |n| n != "of" && n != "[")
            // a shown type must not be the element type of a larger one
            && (i == 0 || have[i - 1] != "of")
            // and what precedes is decoration only: no `:` / `=` (the match would be the type part
            // of another entity's signature)
            && !have[..i].iter().any(|t| t == ":" || t == "=")
    })
}

pub struct HoverCheck;

impl Check for HoverCheck {
    fn part(&self) -> &'static str {
        "hover"
    }
    fn max_len(&self) -> usize {
        2500
    }
    fn run(&self, bytes: &[u8]) -> CaseResult {
        let (w, mut s) = world(bytes);
        let text = w.text().to_string();
        let mut r = CaseResult::new(fnv(text.as_bytes()));
        r.evals = 0;
        let idents = w.ident_tokens(&mut s, 14);
        let mut nontrivial = false;
        for &i in &idents {
            let b = w.bind_of(i).unwrap();
            if b == Bind::Unbound {
                continue;
            }
            let ambiguous = w.ambiguous_name(i);
            let offs = w.cursor_offsets(i);
            let p = w.pos_at(offs[s.below(offs.len())]);
            r.evals += 1;
            let detail = || json!({ "text": text, "token": w.tok(i).text, "token_index": i, "role": format!("{:?}", w.tok(i).role), "cursor": [p.line, p.character] });
            let sign = |sig: &str| if ambiguous { format!("name-denotes-global-and-local|{}|{}", sig, super::c12::role_class(&w, i)) } else { sig.to_string() };
            let h = match nav::hover(&w, p) {
                Err((sig, what)) => {
                    r.fail(format!("{}|hover", sig), what, detail());
                    continue;
                }
                Ok(None) => {
                    r.fail(sign("no-hover"), format!("no hover on `{}` ({:?})", w.tok(i).text, w.tok(i).role), detail());
                    continue;
                }
                Ok(Some(h)) => h,
            };
            match &h.range {
                Some(range) if w.bytes_of(range) == w.laid.ranges[i] => {}
                other => {
                    r.fail("hover-range", format!("hover range {:?} does not cover exactly the identifier at {:?}", other.as_ref().map(|x| w.bytes_of(x)), w.laid.ranges[i]), detail());
                }
            }
            let value = match &h.contents {
                HoverContents::Markup(m) => m.value.clone(),
                HoverContents::Scalar(MarkedString::String(sv)) => sv.clone(),
                _ => String::new(),
            };
            let Some((sig_shown, after)) = code_block(&value) else {
                r.fail("hover-not-a-code-block", format!("hover content does not start with an spl code block: {:?}", value), detail());
                continue;
            };
            let accepted = signatures(&w, b);
            if !accepted.iter().any(|a| shows_signature(sig_shown, a)) {
                let mut sig = sign("wrong-hover-signature");
                if ambiguous {
                    // the recorded finding only if what is shown presents the baseline's signature
                    // (token-wise, decoration accepted as above)
                    let m = "textDocument/hover";
                    let agrees = match crate::pinned_lsp::answer(m, &w.uri, &text, crate::pinned_lsp::position_params(m, &w.uri, p.line, p.character)) {
                        Ok(v) => {
                            let md = v["contents"]["value"].as_str().or_else(|| v["contents"].as_str()).unwrap_or("").to_string();
                            code_block(&md).map_or(false, |c| shows_signature(sig_shown, c.0.trim()))
                        }
                        Err(_) => false,
                    };
                    sig = crate::pinned_lsp::triage(sig, agrees);
                }
                r.fail(
                    sig,
                    format!("hover on `{}` ({:?}) shows {:?}; the declaration it is bound to reads {:?}", w.tok(i).text, w.tok(i).role, sig_shown, accepted.first()),
                    detail(),
                );
                continue;
            }
            // documentation: every comment line in front of the declaration, in order, after the signature
            if let Some(first) = w.decl_first_token(b) {
                let docs = w.doc_lines(first);
                let mut rest: &str = after;
                for d in &docs {
                    match rest.find(d.as_str()) {
                        Some(at) => rest = &rest[at + d.len()..],
                        None => {
                            r.fail(sign("hover-documentation"), format!("documentation line {:?} of the declaration is missing (or out of order) in the hover text {:?}", d, value), detail());
                            break;
                        }
                    }
                }
                if !docs.is_empty() {
                    nontrivial = true;
                }
                if w.tok(w.decl_tok[&b]).decl != w.tok(i).decl {
                    nontrivial = true;
                }
            }
            if ambiguous && r.failures.is_empty() {
                r.label("ambiguous-name-answered-correctly");
            }
            if r.failures.iter().any(|f| !f.sig.starts_with("name-denotes-global-and-local")) {
                break;
            }
        }
        r.evals = r.evals.max(1);
        r.nontrivial = nontrivial;
        r
    }
    fn describe(&self, bytes: &[u8]) -> Value {
        json!({ "text": world(bytes).0.text() })
    }
}

pub struct SignatureCheck;

impl Check for SignatureCheck {
    fn part(&self) -> &'static str {
        "signature-help"
    }
    fn max_len(&self) -> usize {
        2500
    }
    fn run(&self, bytes: &[u8]) -> CaseResult {
        let (w, mut s) = world(bytes);
        let text = w.text().to_string();
        let mut r = CaseResult::new(fnv(text.as_bytes()) ^ 0x99);
        r.evals = 0;
        let toks = &w.rendered.toks;
        // calls: name token followed by the `call:lparen` token
        let calls: Vec<usize> = (0..toks.len()).filter(|i| toks[*i].site.ends_with(">call:first") && matches!(toks[*i].role, Role::Use(Bind::Proc(_)) | Role::Use(Bind::BuiltinProc(_)))).collect();
        let mut nontrivial = false;
        for &c in calls.iter().take(8) {
            let b = w.bind_of(c).unwrap();
            let lparen = c + 1;
            // closing parenthesis of this call: the `call:rparen` token of the same statement
            let mut depth = 0usize;
            let mut rparen = lparen;
            for j in lparen..toks.len() {
                match toks[j].text.as_str() {
                    "(" => depth += 1,
                    ")" => {
                        depth -= 1;
                        if depth == 0 {
                            rparen = j;
                            break;
                        }
                    }
                    _ => {}
                }
            }
            let (want_label, n_params) = match b {
                Bind::Proc(j) => (w.prog.proc_signature(j), w.prog.procs[j].params.len()),
                Bind::BuiltinProc(k) => (builtin_signature(k), BUILTINS[k].1.len()),
                _ => continue,
            };
            let want_params: Vec<String> = match b {
                Bind::Proc(j) => w.prog.procs[j].params.iter().map(var_signature).collect(),
                Bind::BuiltinProc(k) => BUILTINS[k].1.iter().map(|(n, rf)| format!("{}{}: int", if *rf { "ref " } else { "" }, n)).collect(),
                _ => vec![],
            };
            // cursor offsets strictly inside the argument list: from just behind `(` to just before `)`
            let from = w.laid.ranges[lparen].end;
            let to = w.laid.ranges[rparen].start;
            let mut cursors: Vec<usize> = vec![from, to];
            for j in lparen + 1..rparen {
                cursors.push(w.laid.ranges[j].start);
                cursors.push(w.laid.ranges[j].end);
            }
            for _ in 0..3 {
                if to > from {
                    cursors.push(from + s.below(to - from + 1));
                }
            }
            cursors.retain(|o| *o >= from && *o <= to && splgen::lsp::expressible(&text, *o));
            cursors.sort();
            cursors.dedup();
            let ambiguous = w.ambiguous_name(c);
            for off in cursors {
                // a cursor inside a comment in the argument list is still inside the list
                let p = w.pos_at(off);
                r.evals += 1;
                let commas = (lparen + 1..rparen).filter(|j| toks[*j].site == "call:comma" && w.laid.ranges[*j].end <= off).count();
                let detail = || json!({ "text": text, "callee": toks[c].text, "cursor": [p.line, p.character], "cursor_byte": off });
                let sign = |sig: &str| if ambiguous { format!("name-denotes-global-and-local|{}|{}", sig, super::c12::role_class(&w, c)) } else { sig.to_string() };
                let help = match nav::signature_help(&w, p) {
                    Err((sig, what)) => {
                        r.fail(format!("{}|signature-help", sig), what, detail());
                        continue;
                    }
                    Ok(None) => {
                        r.fail(sign("no-signature-help"), format!("no signature help inside the argument list of `{}`", toks[c].text), detail());
                        continue;
                    }
                    Ok(Some(h)) => h,
                };
                if help.signatures.len() != 1 {
                    r.fail("not-one-signature", format!("{} signatures", help.signatures.len()), detail());
                    continue;
                }
                let sg = &help.signatures[0];
                if !shows_signature(&sg.label, &want_label) {
                    r.fail(sign("wrong-signature-label"), format!("signature help shows {:?}, the callee is declared as {:?}", sg.label, want_label), detail());
                    continue;
                }
                let got_params: Vec<String> = sg
                    .parameters
                    .clone()
                    .unwrap_or_default()
                    .iter()
                    .map(|p0| match &p0.label {
                        ParameterLabel::Simple(t) => t.clone(),
                        ParameterLabel::LabelOffsets([a, b2]) => sg.label.chars().skip(*a as usize).take((*b2 - *a) as usize).collect(),
                    })
                    .collect();
                if got_params.len() != want_params.len() || !got_params.iter().zip(&want_params).all(|(g, w0)| shows_signature(g, w0)) {
                    r.fail(sign("wrong-parameter-entries"), format!("parameter entries {:?}, declared parameters {:?}", got_params, want_params), detail());
                    continue;
                }
                let active = help.active_parameter.or(sg.active_parameter);
                let want_active = if n_params == 0 { None } else { Some(commas as u32) };
                // for parameterless callees an absent or zero index are both fine
                let ok = if n_params == 0 { active.map_or(true, |a| a == 0) } else { active == want_active };
                if !ok {
                    r.fail(
                        sign("wrong-active-parameter"),
                        format!("active parameter {:?} with {} commas between `(` and the cursor (callee `{}` has {} parameters)", active, commas, toks[c].text, n_params),
                        detail(),
                    );
                }
                if commas >= 1 || toks[c].depth >= 2 {
                    nontrivial = true;
                }
            }
            if let Some(d) = w.decl_tok.get(&b) {
                if w.tok(*d).decl != w.tok(c).decl {
                    nontrivial = true;
                }
            }
            if r.failures.iter().any(|f| !f.sig.starts_with("name-denotes-global-and-local")) {
                break;
            }
        }
        r.evals = r.evals.max(1);
        r.nontrivial = nontrivial;
        if calls.is_empty() {
            r.excluded.push("program-without-calls".into());
        }
        r
    }
    fn describe(&self, bytes: &[u8]) -> Value {
        json!({ "text": world(bytes).0.text() })
    }
}

pub const E2E: super::e2e::EndToEnd = super::e2e::EndToEnd { part: "end-to-end-binary-vs-handler", methods: &["textDocument/hover", "textDocument/signatureHelp"] };

pub fn checks() -> Vec<Box<dyn Check>> {
    vec![Box::new(HoverCheck), Box::new(SignatureCheck), Box::new(E2E)]
}

pub fn run(ctx: &Ctx) -> i32 {
    let mut parts = vec![
        crate::corpus_part(ctx, &checks()),
        run_pbt(ctx, &HoverCheck, ctx.n(16_000, 250_000)),
        run_pbt(ctx, &SignatureCheck, ctx.n(8_000, 150_000)),
    ];
    parts.push(run_pbt(ctx, &E2E, ctx.n(400, 8_000)));
    finish(
        ctx,
        parts,
        "well-typed programs in any layout with documentation comments; hover on up to 14 identifier occurrences per program (cursor on the first, an interior or the last character): range = the identifier, the leading code block (or first paragraph) shows - compared as token sequences, decoration such as a `var`/`proc`/`type x =` prefix accepted - the signature of the bound declaration rendered from the generator's model (proc name(p: T, ref q: T) with fully resolved types; [ref ]name: type; resolved type of a type), followed by every documentation line in order; signature help at every token boundary and random offsets between `(` and `)` of up to 8 calls per program (any nesting and spacing, also inside comments within the list): one signature with the callee's declared label, one entry per parameter, active parameter = commas between `(` and the cursor; non-trivial = declaration documented or in another declaration (hover), argument index >= 1 / nesting >= 2 / callee declared elsewhere (signature help); evaluations = requests",
        &[
            "a type may be shown as its resolved type alone or with a `type name = ` prefix (the statement does not fix the layout)",
            "for parameterless callees an absent and a zero active parameter are both accepted",
            "occurrences whose spelling is both a parameter/local of the enclosing procedure and a global entity form the recorded class name-denotes-global-and-local",
        ],
        json!({}),
    )
}

//! Engine B part of C08 (real binary, `$/verif/text` hook).
use crate::driver::*;

pub fn engine_b_parts(_ctx: &Ctx) -> Vec<Part> {
    Vec::new()
}

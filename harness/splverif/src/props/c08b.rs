//! Engine B part of C08: the same histories against the real binary; the server's text is read
//! back with the guarded `$/verif/text` request after every notification.
use super::c08::{decode, Case, Note};
use super::c18::WATCHDOG_MS;
use crate::driver::*;
use crate::session::{self, RunOpts};
use serde_json::{json, Value};
use splgen::lsp;
use splgen::src::fnv;

pub struct BinarySync;

fn plan(case: &Case) -> (Vec<Value>, Vec<(i64, String)>) {
    let uri = "file:///w/sync.spl";
    let mut msgs = vec![session::request(1, "initialize", session::initialize_params(false)), session::notification("initialized", json!({}))];
    msgs.push(session::notification("textDocument/didOpen", json!({ "textDocument": { "uri": uri, "languageId": "spl", "version": 1, "text": case.initial } })));
    let mut client = case.initial.clone();
    let mut id = 1;
    let mut version = 1i64;
    let mut expect = Vec::new();
    for note in &case.notes {
        let note = match note {
            Note::Changes(n) => n,
            Note::Reopen(t) => {
                msgs.push(session::notification("textDocument/didClose", json!({ "textDocument": { "uri": uri } })));
                msgs.push(session::notification("textDocument/didOpen", json!({ "textDocument": { "uri": uri, "languageId": "spl", "version": 1, "text": t } })));
                client = t.clone();
                version = 1;
                id += 1;
                msgs.push(session::request(id, "$/verif/text", json!({ "uri": uri })));
                expect.push((id, client.clone()));
                continue;
            }
        };
        let cc: Vec<Value> = note
            .iter()
            .map(|c| match c.range {
                Some((a, z)) => json!({ "range": { "start": { "line": a.line, "character": a.character }, "end": { "line": z.line, "character": z.character } }, "text": c.text }),
                None => json!({ "text": c.text }),
            })
            .collect();
        for c in note {
            lsp::apply(&mut client, c);
        }
        msgs.push(session::notification("textDocument/didChange", json!({ "textDocument": { "uri": uri, "version": session::next_version(&mut version) }, "contentChanges": cc })));
        id += 1;
        msgs.push(session::request(id, "$/verif/text", json!({ "uri": uri })));
        expect.push((id, client.clone()));
    }
    id += 1;
    msgs.push(session::request(id, "shutdown", Value::Null));
    msgs.push(session::notification("exit", Value::Null));
    (msgs, expect)
}

impl Check for BinarySync {
    fn part(&self) -> &'static str {
        "didchange-histories-real-binary"
    }
    fn max_len(&self) -> usize {
        600
    }
    fn shrink_iters(&self) -> u32 {
        400
    }
    fn run(&self, bytes: &[u8]) -> CaseResult {
        let case = decode(bytes);
        let (msgs, expect) = plan(&case);
        let mut r = CaseResult::new(fnv(bytes));
        r.evals = expect.len() as u64;
        let chunks = session::one_chunk(&msgs);
        let opts = RunOpts { close_stdin: true, timeout_ms: WATCHDOG_MS, read_delay_ms: 0 };
        let mut o = session::run(&chunks, &opts);
        let mut tries = 1;
        while o.timed_out && tries < 3 {
            o = session::run(&chunks, &opts);
            tries += 1;
        }
        let detail = || json!({ "initial": case.initial, "messages": msgs.iter().map(|m| m.to_string().chars().take(300).collect::<String>()).collect::<Vec<_>>(), "stderr": o.stderr.chars().take(400).collect::<String>(), "exit_code": o.exit_code });
        if o.timed_out {
            r.fail("watchdog", "the server does not terminate (3 attempts)", detail());
            return r;
        }
        let responses = o.responses();
        for (id, want) in &expect {
            match responses.iter().find(|x| x["id"].as_i64() == Some(*id)) {
                None => {
                    r.fail("server-died", format!("no answer to the text request {} (exit status {:?})", id, o.exit_code), detail());
                    return r;
                }
                Some(resp) => {
                    let got = resp.get("result").and_then(|v| v.as_str());
                    if got != Some(want.as_str()) {
                        r.fail("text-diverges", format!("after notification {} the server holds {:?}, the client {:?}", id - 1, got, want), detail());
                        return r;
                    }
                }
            }
        }
        let all = format!("{}{}", case.initial, expect.last().map_or("", |e| e.1.as_str()));
        r.nontrivial = all.chars().any(|c| c.len_utf16() > 1 || c == '\r') || case.labels.iter().any(|l| l.contains("overshoot"));
        r
    }
    fn describe(&self, bytes: &[u8]) -> Value {
        let case = decode(bytes);
        json!({ "initial": case.initial, "messages": plan(&case).0.iter().map(|m| m.to_string().chars().take(300).collect::<String>()).collect::<Vec<_>>() })
    }
}

pub fn engine_b_parts(ctx: &Ctx) -> Vec<Part> {
    vec![run_pbt(ctx, &BinarySync, ctx.n(1_500, 40_000))]
}

//! C20 Ordering, read-your-writes and document isolation under load.

use super::c08::{gen_pos, gen_text};
use super::c18::WATCHDOG_MS;
use crate::driver::*;
use crate::session::{self, Chunk, Outcome, RunOpts};
use serde_json::{json, Value};
use splgen::lsp::{self, Change};
use splgen::src::{fnv, Src};
use std::collections::BTreeMap;

pub const URIS: [&str; 32] = ["file:///w/a.spl", "untitled:///w/a.spl", "file:///w/b.spl", "file://host/w/a.spl", "file:///w/a.spl.bak", "file:///w/doc5.spl", "file:///w/doc6.spl", "file:///w/doc7.spl", "file:///w/doc8.spl", "file:///w/doc9.spl", "file:///w/doc10.spl", "file:///w/doc11.spl", "file:///w/doc12.spl", "file:///w/doc13.spl", "file:///w/doc14.spl", "file:///w/doc15.spl", "file:///w/doc16.spl", "file:///w/doc17.spl", "file:///w/doc18.spl", "file:///w/doc19.spl", "file:///w/doc20.spl", "file:///w/doc21.spl", "file:///w/doc22.spl", "file:///w/doc23.spl", "file:///w/doc24.spl", "file:///w/doc25.spl", "file:///w/doc26.spl", "file:///w/doc27.spl", "file:///w/doc28.spl", "file:///w/doc29.spl", "file:///w/doc30.spl", "file:///w/doc31.spl"];

#[derive(Clone, Debug)]
pub enum Op {
    Open(usize, String),
    Change(usize, Vec<Change>),
    Close(usize),
    /// `$/verif/text` request; the expected answer is filled in from the model
    ReadText(usize),
    /// hover on the counter variable of a counter document
    Hover(usize),
    UnknownNotification,
}

pub struct Burst {
    pub diagnostics: bool,
    pub ops: Vec<Op>,
    pub n_uris: usize,
    pub read_delay_ms: u64,
    pub writes: usize,
}

fn counter_doc(k: usize) -> String {
    format!("proc main() {{\n  var v{}: int;\n  v{} := {};\n}}\n", k, k, k)
}

pub fn decode(bytes: &[u8]) -> Burst {
    let mut s = Src::new(bytes);
    let diagnostics = s.chance(2, 3);
    // one burst in eight works on many documents (17-32, all open at the same time)
    let many = s.chance(1, 8);
    let n_uris = if many { 17 + s.below(16) } else { 2 + s.below(3) };
    let n = 100 + s.below(700);
    let mut model: Vec<Option<String>> = vec![None; n_uris];
    let mut ops = Vec::new();
    let mut counter = 0usize;
    if many {
        for u in 0..n_uris {
            counter += 1;
            let text = counter_doc(counter);
            model[u] = Some(text.clone());
            ops.push(Op::Open(u, text));
        }
    }
    // floods: long runs of consecutive change notifications on a larger document, so that the
    // broker (which re-analyses on every change) falls behind and its channel of 32 fills up;
    // the read that follows must still see every change, in order
    let floods = if s.chance(1, 2) { 1 + s.below(3) } else { 0 };
    let mut flood_at: Vec<usize> = (0..floods).map(|_| s.below(n)).collect();
    flood_at.sort();
    for step in 0..n {
        if flood_at.contains(&step) {
            let u = s.below(n_uris);
            let cfg = splgen::prog::GenCfg { max_decls: 8, budget: 400, ..splgen::prog::GenCfg::default() };
            let big = splgen::text::gen_valid_text(&mut s, &cfg, splgen::layout::Style::Plain);
            model[u] = Some(big.clone());
            ops.push(Op::Open(u, big));
            let run = 40 + s.below(260);
            for _ in 0..run {
                let mut text = model[u].clone().unwrap();
                let mut labels = Vec::new();
                let a = gen_pos(&mut s, &text, &mut labels);
                let ch = Change { range: Some((a, a)), text: s.pick(&[" ", "x", "\n", "1", ";"]).to_string() };
                lsp::apply(&mut text, &ch);
                model[u] = Some(text);
                ops.push(Op::Change(u, vec![ch]));
            }
            ops.push(Op::ReadText(u));
            continue;
        }
        let u = s.below(n_uris);
        let op = match s.below(16) {
            0 | 1 => {
                counter += 1;
                let text = if s.chance(1, 2) { counter_doc(counter) } else { gen_text(&mut s, 20) };
                model[u] = Some(text.clone());
                Op::Open(u, text)
            }
            2 => {
                model[u] = None;
                Op::Close(u)
            }
            3..=8 => {
                let k = 1 + s.below(2);
                let mut changes = Vec::new();
                // changes are generated against the model of an open document; for a closed one the
                // notification is sent all the same (the server must ignore it)
                let mut text = model[u].clone().unwrap_or_else(|| "x".to_string());
                // a quarter of the changes keep the byte length but change the line structure: a
                // blank becomes a line feed or the other way round (diagnostics behind it move)
                let toggles: Vec<usize> = text.char_indices().filter(|(_, c)| *c == ' ' || *c == '\n').map(|(i, _)| i).filter(|i| lsp::expressible(&text, *i) && lsp::expressible(&text, *i + 1)).collect();
                if !toggles.is_empty() && s.chance(1, 4) {
                    let at = toggles[s.below(toggles.len())];
                    let to = if text.as_bytes()[at] == b' ' { "\n" } else { " " };
                    let ch = Change { range: Some((lsp::pos_of(&text, at), lsp::pos_of(&text, at + 1))), text: to.to_string() };
                    lsp::apply(&mut text, &ch);
                    changes.push(ch);
                }
                for _ in 0..k {
                    let mut labels = Vec::new();
                    let a = gen_pos(&mut s, &text, &mut labels);
                    let b = gen_pos(&mut s, &text, &mut labels);
                    let (oa, ob) = (lsp::offset_of(&text, a), lsp::offset_of(&text, b));
                    // LSP ranges are ordered, as offsets and as positions
                    let (a, b) = if oa < ob || (oa == ob && a <= b) { (a, b) } else { (b, a) };
                    let ch = Change { range: Some((a, b)), text: gen_text(&mut s, 4) };
                    lsp::apply(&mut text, &ch);
                    changes.push(ch);
                }
                if model[u].is_some() {
                    model[u] = Some(text);
                }
                Op::Change(u, changes)
            }
            9 => {
                // replace a counter document by the next one with a full-text change
                counter += 1;
                let text = counter_doc(counter);
                if model[u].is_some() {
                    model[u] = Some(text.clone());
                }
                Op::Change(u, vec![Change { range: None, text }])
            }
            10..=12 => Op::ReadText(u),
            13 | 14 => Op::Hover(u),
            _ => Op::UnknownNotification,
        };
        ops.push(op);
    }
    for u in 0..n_uris {
        ops.push(Op::ReadText(u));
    }
    Burst { diagnostics, ops, n_uris, read_delay_ms: *s.pick(&[0u64, 0, 5, 30, 120]), writes: *s.pick(&[1usize, 1, 3, 16]) }
}

struct Planned {
    messages: Vec<Value>,
    /// id -> expected text (`$/verif/text`)
    expect_text: BTreeMap<i64, Option<String>>,
    /// id -> expected hover content fragment (None = null expected; Some("") = anything)
    expect_hover: BTreeMap<i64, Option<String>>,
    ids: Vec<i64>,
    final_texts: Vec<Option<String>>,
}

fn plan(b: &Burst) -> Planned {
    let mut messages = vec![session::request(1, "initialize", session::initialize_params_variant(b.diagnostics, b.ops.len() + b.writes + b.n_uris)), session::notification("initialized", json!({}))];
    let mut model: Vec<Option<String>> = vec![None; b.n_uris];
    let mut versions: Vec<i64> = vec![1; b.n_uris];
    let mut id = 1i64;
    let mut ids = vec![1];
    let mut expect_text = BTreeMap::new();
    let mut expect_hover = BTreeMap::new();
    for op in &b.ops {
        match op {
            Op::Open(u, text) => {
                model[*u] = Some(text.clone());
                versions[*u] = 1;
                messages.push(session::notification("textDocument/didOpen", json!({ "textDocument": { "uri": URIS[*u], "languageId": "spl", "version": 1, "text": text } })));
            }
            Op::Close(u) => {
                model[*u] = None;
                messages.push(session::notification("textDocument/didClose", json!({ "textDocument": { "uri": URIS[*u] } })));
            }
            Op::Change(u, changes) => {
                if let Some(t) = model[*u].as_mut() {
                    for c in changes {
                        lsp::apply(t, c);
                    }
                }
                let cc: Vec<Value> = changes
                    .iter()
                    .map(|c| match c.range {
                        Some((a, z)) => json!({ "range": { "start": { "line": a.line, "character": a.character }, "end": { "line": z.line, "character": z.character } }, "text": c.text }),
                        None => json!({ "text": c.text }),
                    })
                    .collect();
                messages.push(session::notification("textDocument/didChange", json!({ "textDocument": { "uri": URIS[*u], "version": session::next_version(&mut versions[*u]) }, "contentChanges": cc })));
            }
            Op::ReadText(u) => {
                id += 1;
                ids.push(id);
                expect_text.insert(id, model[*u].clone());
                messages.push(session::request(id, "$/verif/text", json!({ "uri": URIS[*u] })));
            }
            Op::Hover(u) => {
                id += 1;
                ids.push(id);
                // counter documents: the variable declared on line 1, column 6
                let exp = match &model[*u] {
                    None => None,
                    Some(t) => {
                        let k = t.strip_prefix("proc main() {\n  var v").and_then(|r| r.split(':').next()).and_then(|d| d.parse::<usize>().ok());
                        match k {
                            Some(k) if *t == counter_doc(k) => Some(format!("v{}: int", k)),
                            _ => Some(String::new()),
                        }
                    }
                };
                expect_hover.insert(id, exp);
                messages.push(session::request(id, "textDocument/hover", json!({ "textDocument": { "uri": URIS[*u] }, "position": { "line": 1, "character": 6 } })));
            }
            Op::UnknownNotification => messages.push(session::notification("$/progress", json!({ "token": 1, "value": {} }))),
        }
    }
    id += 1;
    ids.push(id);
    messages.push(session::request(id, "shutdown", Value::Null));
    messages.push(session::notification("exit", Value::Null));
    Planned { messages, expect_text, expect_hover, ids, final_texts: model }
}

/// The diagnostics the server computes for the final content of document `u`: the document's own
/// notifications replayed, in order and without any load, on the in-process broker. (Whether
/// incremental analysis equals a fresh one is C01's subject, not repeated here.)
fn expected_diagnostics(b: &Burst, u: usize) -> Result<Option<Value>, String> {
    use crate::srv::{self, Srv};
    let uri = srv::uri(URIS[u]);
    let mut srv = Srv::new(true);
    for op in &b.ops {
        match op {
            Op::Open(x, text) if *x == u => srv.open(&uri, text),
            Op::Close(x) if *x == u => srv.close(&uri),
            Op::Change(x, changes) if *x == u => srv.change(&uri, changes.iter().map(|c| srv::change_event(c.range, &c.text)).collect()),
            _ => {}
        }
    }
    srv.settle()?;
    // Is the incremental analysis of this history (library level, positions from the client model)
    // equal to a fresh analysis of the final text? Then the reference is simply a fresh didOpen of
    // the final text: the published diagnostics must describe the final content. Only where the
    // library itself diverges (C01's subject) the unloaded replay is the reference.
    let mut lib: Option<spl_frontend::AnalyzedSource> = None;
    for op in &b.ops {
        match op {
            Op::Open(x, text) if *x == u => lib = catch(|| spl_frontend::AnalyzedSource::new(text.clone())).ok(),
            Op::Close(x) if *x == u => lib = None,
            Op::Change(x, changes) if *x == u => {
                if let Some(cur) = lib.take() {
                    let mut t = cur.text.clone();
                    let mut tcs = Vec::new();
                    for c in changes {
                        let range = match c.range {
                            Some((a, z)) => lsp::offset_of(&t, a)..lsp::offset_of(&t, z),
                            None => 0..t.len(),
                        };
                        t.replace_range(range.clone(), &c.text);
                        tcs.push(spl_frontend::TextChange { range, text: c.text.clone() });
                    }
                    lib = catch(move || cur.update(tcs)).ok();
                }
            }
            _ => {}
        }
    }
    if let Some(cur) = &lib {
        let t = cur.text.clone();
        if let Ok(fresh) = catch(move || spl_frontend::AnalyzedSource::new(t)) {
            if catch(|| super::c01::difference(cur, &fresh).is_none()).unwrap_or(false) {
                let mut f = Srv::new(true);
                f.open(&uri, &cur.text);
                f.settle()?;
                let last = f.diagnostics().into_iter().filter(|p| p.uri == uri).last();
                return Ok(last.map(|p| {
                    Value::Array(
                        p.diagnostics
                            .iter()
                            .map(|d| json!({ "range": { "start": { "line": d.range.start.line, "character": d.range.start.character }, "end": { "line": d.range.end.line, "character": d.range.end.character } }, "message": d.message }))
                            .collect(),
                    )
                }));
            }
        }
    }
    let last = srv.diagnostics().into_iter().filter(|p| p.uri == uri).last();
    Ok(last.map(|p| {
        Value::Array(
            p.diagnostics
                .iter()
                .map(|d| json!({ "range": { "start": { "line": d.range.start.line, "character": d.range.start.character }, "end": { "line": d.range.end.line, "character": d.range.end.character } }, "message": d.message }))
                .collect(),
        )
    }))
}

fn strip_diag(v: &Value) -> Value {
    Value::Array(v.as_array().map_or(vec![], |a| a.iter().map(|d| json!({ "range": d["range"], "message": d["message"] })).collect()))
}

pub fn check_outcome(b: &Burst, p: &Planned, o: &Outcome, r: &mut CaseResult, run_label: &str) {
    let detail = |extra: Value| {
        json!({
            "run": run_label, "diagnostics_capability": b.diagnostics, "messages": p.messages.len(), "uris": URIS[..b.n_uris], "extra": extra,
            "stderr": o.stderr.chars().take(400).collect::<String>(),
        })
    };
    if o.timed_out {
        r.fail("watchdog", "the server does not terminate after the burst (3 attempts)", detail(json!(null)));
        return;
    }
    if let Some(pb) = &o.framing_problem {
        r.fail("malformed-output", pb.clone(), detail(json!(null)));
        return;
    }
    let responses = o.responses();
    let got_ids: Vec<i64> = responses.iter().map(|x| x["id"].as_i64().unwrap_or(-1)).collect();
    if got_ids != p.ids {
        let first = got_ids.iter().zip(&p.ids).position(|(a, c)| a != c).unwrap_or(got_ids.len().min(p.ids.len()));
        r.fail("responses-out-of-order-or-missing", format!("{} responses for {} requests; first difference at response {} (got id {:?}, expected {:?})", got_ids.len(), p.ids.len(), first, got_ids.get(first), p.ids.get(first)), detail(json!({ "exit_code": o.exit_code })));
        return;
    }
    for resp in &responses {
        let id = resp["id"].as_i64().unwrap_or(-1);
        if let Some(exp) = p.expect_text.get(&id) {
            let got = resp.get("result").and_then(|v| v.as_str()).map(|s| s.to_string());
            if resp.get("error").is_some() || got != *exp {
                r.fail(
                    "stale-or-foreign-text",
                    format!("request {} ($/verif/text) answered {:?}; all notifications before it leave the document as {:?}", id, got, exp),
                    detail(json!({ "response": resp.to_string().chars().take(300).collect::<String>() })),
                );
                return;
            }
        }
        if let Some(exp) = p.expect_hover.get(&id) {
            let got = resp.get("result");
            let ok = match exp {
                None => got.map_or(false, |g| g.is_null()),
                Some(frag) if frag.is_empty() => resp.get("error").is_none(),
                Some(frag) => got.and_then(|g| g["contents"]["value"].as_str()).map_or(false, |v| v.contains(frag.as_str())),
            };
            if !ok {
                r.fail("stale-hover", format!("hover request {} answered {}, expected {:?} from the document as changed before it", id, resp.to_string().chars().take(200).collect::<String>(), exp), detail(json!(null)));
                return;
            }
        }
    }
    // diagnostics
    let mut last: BTreeMap<String, Value> = BTreeMap::new();
    let mut count = 0;
    for n in o.notifications("textDocument/publishDiagnostics") {
        count += 1;
        last.insert(n["params"]["uri"].as_str().unwrap_or("").to_string(), n["params"]["diagnostics"].clone());
    }
    if !b.diagnostics {
        if count > 0 {
            r.fail("diagnostics-without-capability", format!("{} publishDiagnostics notifications although the client did not announce support", count), detail(json!(null)));
        }
    } else {
        for (u, t) in p.final_texts.iter().enumerate() {
            if let Some(t) = t {
                match expected_diagnostics(b, u) {
                    Ok(want) => {
                        let got = last.get(URIS[u]).map(strip_diag);
                        if got != want {
                            r.fail(
                                "last-diagnostics-not-final",
                                format!("the last diagnostics published for {} do not describe its final content", URIS[u]),
                                detail(json!({ "final_text": t, "got": got, "want": want })),
                            );
                            return;
                        }
                    }
                    Err(sig) => {
                        r.fail(sig, "replaying the document's notifications in process panics", detail(json!({ "final_text": t })));
                        return;
                    }
                }
            }
        }
    }
    if o.exit_code != Some(0) {
        r.fail("wrong-exit-status", format!("exit status {:?} after shutdown and exit", o.exit_code), detail(json!(null)));
    }
}

fn chunks_for(messages: &[Value], writes: usize) -> Vec<Chunk> {
    let stream: Vec<u8> = messages.iter().flat_map(session::frame).collect();
    let w = writes.max(1);
    let size = (stream.len() + w - 1) / w;
    stream.chunks(size.max(1)).map(|c| Chunk { bytes: c.to_vec(), sleep_before_ms: 0 }).collect()
}

pub struct Bursts;

impl Check for Bursts {
    fn part(&self) -> &'static str {
        "pipelined-bursts"
    }
    fn max_len(&self) -> usize {
        6000
    }
    fn run(&self, bytes: &[u8]) -> CaseResult {
        let b = decode(bytes);
        let p = plan(&b);
        let mut r = CaseResult::new(fnv(bytes));
        r.evals = 0;
        // the same burst under two schedules: as generated, and with the other reader delay
        for (k, delay) in [b.read_delay_ms, if b.read_delay_ms == 0 { 60 } else { 0 }].iter().enumerate() {
            r.evals += 1;
            let chunks = chunks_for(&p.messages, if k == 0 { b.writes } else { 1 });
            let opts = RunOpts { close_stdin: true, timeout_ms: WATCHDOG_MS * 2, read_delay_ms: *delay };
            let mut o = session::run(&chunks, &opts);
            let mut tries = 1;
            while o.timed_out && tries < 3 {
                o = session::run(&chunks, &opts);
                tries += 1;
            }
            check_outcome(&b, &p, &o, &mut r, &format!("run {} (reader delay {} ms, {} writes)", k + 1, delay, chunks.len()));
            if !r.failures.is_empty() {
                break;
            }
        }
        let interleaved = b.ops.windows(2).filter(|w| uri_of(&w[0]) != uri_of(&w[1])).count() > 20;
        r.nontrivial = p.messages.len() > 64 && interleaved;
        r.label(if b.diagnostics { "with-diagnostics-capability" } else { "without-diagnostics-capability" });
        r.label(format!("uris:{}", b.n_uris));
        r
    }
    fn shrink_iters(&self) -> u32 {
        120
    }
    fn describe(&self, bytes: &[u8]) -> Value {
        let b = decode(bytes);
        let p = plan(&b);
        json!({
            "diagnostics_capability": b.diagnostics, "uris": URIS[..b.n_uris], "messages": p.messages.len(), "read_delay_ms": b.read_delay_ms, "writes": b.writes,
            "first_messages": p.messages.iter().take(12).map(|m| m.to_string().chars().take(160).collect::<String>()).collect::<Vec<_>>(),
        })
    }
}

fn uri_of(op: &Op) -> Option<usize> {
    match op {
        Op::Open(u, _) | Op::Change(u, _) | Op::Close(u) | Op::ReadText(u) | Op::Hover(u) => Some(*u),
        Op::UnknownNotification => None,
    }
}

pub fn checks() -> Vec<Box<dyn Check>> {
    vec![Box::new(Bursts)]
}

pub fn run(ctx: &Ctx) -> i32 {
    let parts = vec![crate::corpus_part(ctx, &checks()), run_pbt(ctx, &Bursts, ctx.n(600, 12_000))];
    finish(
        ctx,
        parts,
        "bursts of 100-800 messages plus, in half of the bursts, 1-3 floods of 40-300 consecutive change notifications on a larger document (didOpen / didChange with 1-2 ranged changes or a full-text change / didClose / hover / $/verif/text / unknown notifications) over 2-5 URIs including pairs that differ only in scheme, authority or suffix, written to the real binary without waiting for answers (1, 3 or 16 writes) while the reader starts after 0-120 ms (back-pressure beyond the channel capacities of 32), with and without the publishDiagnostics capability (each announced in three shapes: alone / nothing, among other textDocument and workspace capabilities, with processId and rootUri), each burst under two schedules; oracle: client text model per full URI: every $/verif/text and hover answer reflects exactly the notifications before it in the stream, responses in request order, last diagnostics per open URI = diagnostics of a fresh didOpen of the final text (where the library-level incremental analysis of that document's history equals the fresh one; otherwise, C01's subject, those of an unloaded in-process replay), none without the capability, closed documents answer null, exit status 0; non-trivial = more than 64 messages with more than 20 switches between URIs; distinct = distinct burst; evaluations = server runs",
        &[
            "the tokio scheduler is not controlled: schedules are sampled (two runs per burst with different reader delays), not enumerated",
            "didChange for a document that is not open must be ignored",
        ],
        json!({}),
    )
}

//! R4: walk the repository's AST (public types only) into a canonical tree with absolute token
//! ranges (`Reference` offsets accumulated), and compare it with the generating derivation.

use spl_frontend::ast::*;
use splgen::layout::Laid;
use splgen::render::ENode;
use std::ops::Range;

#[derive(Clone, Debug, PartialEq, Eq)]
pub struct RNode {
    pub kind: String,
    pub range: Range<usize>,
    pub doc: Option<Vec<String>>,
    pub errors: usize,
    pub children: Vec<RNode>,
}

fn node(kind: impl Into<String>, info: &AstInfo, base: usize, children: Vec<RNode>) -> RNode {
    RNode {
        kind: kind.into(),
        range: (info.range.start + base)..(info.range.end + base),
        doc: None,
        errors: info.errors.len(),
        children,
    }
}

pub fn ident(i: &Identifier, base: usize) -> RNode {
    node(format!("Ident({})", i.value), &i.info, base, vec![])
}

pub fn int_lit(i: &IntLiteral, base: usize) -> RNode {
    node(
        match i.value {
            Some(v) => format!("Int({})", v),
            None => "Int(?)".to_string(),
        },
        &i.info,
        base,
        vec![],
    )
}

pub fn variable(v: &Variable, base: usize) -> RNode {
    match v {
        Variable::NamedVariable(i) => ident(i, base),
        Variable::ArrayAccess(a) => {
            let mut ch = vec![variable(&a.array, base)];
            if let Some(ix) = &a.index {
                ch.push(expression(&ix.reference, base + ix.offset));
            } else {
                ch.push(missing("index"));
            }
            node("Access", &a.info, base, ch)
        }
    }
}

fn missing(what: &str) -> RNode {
    RNode { kind: format!("Missing({})", what), range: 0..0, doc: None, errors: 0, children: vec![] }
}

pub fn expression(e: &Expression, base: usize) -> RNode {
    match e {
        Expression::Binary(b) => node(
            format!("Bin({})", b.operator),
            &b.info,
            base,
            vec![expression(&b.lhs, base), expression(&b.rhs, base)],
        ),
        Expression::Bracketed(b) => node("Paren", &b.info, base, vec![expression(&b.expr, base)]),
        Expression::IntLiteral(i) => int_lit(i, base),
        Expression::Unary(u) => node("Neg", &u.info, base, vec![expression(&u.expr, base)]),
        Expression::Variable(v) => variable(v, base),
        Expression::Error(info) => node("ErrorExpr", info, base, vec![]),
    }
}

pub fn type_expr(t: &TypeExpression, base: usize) -> RNode {
    match t {
        TypeExpression::NamedType(i) => ident(i, base),
        TypeExpression::ArrayType { size, base_type, info } => {
            let mut ch = Vec::new();
            ch.push(size.as_ref().map_or_else(|| missing("size"), |s| int_lit(s, base)));
            ch.push(
                base_type
                    .as_ref()
                    .map_or_else(|| missing("base"), |b| type_expr(&b.reference, base + b.offset)),
            );
            node("ArrayType", info, base, ch)
        }
    }
}

fn opt_ident(i: &Option<Identifier>, base: usize) -> RNode {
    i.as_ref().map_or_else(|| missing("name"), |i| ident(i, base))
}

fn opt_type(t: &Option<Reference<TypeExpression>>, base: usize) -> RNode {
    t.as_ref().map_or_else(|| missing("type"), |t| type_expr(&t.reference, base + t.offset))
}

pub fn statement(s: &Statement, base: usize) -> RNode {
    match s {
        Statement::Empty(info) => node("Empty", info, base, vec![]),
        Statement::Error(info) => node("ErrorStmt", info, base, vec![]),
        Statement::Assignment(a) => {
            let mut ch = vec![variable(&a.variable, base)];
            ch.push(a.expr.as_ref().map_or_else(|| missing("value"), |e| expression(&e.reference, base + e.offset)));
            node("Assign", &a.info, base, ch)
        }
        Statement::Call(c) => {
            let mut ch = vec![ident(&c.name, base)];
            for a in &c.arguments {
                ch.push(expression(&a.reference, base + a.offset));
            }
            node("Call", &c.info, base, ch)
        }
        Statement::If(i) => {
            let mut ch = Vec::new();
            ch.push(i.condition.as_ref().map_or_else(|| missing("cond"), |e| expression(&e.reference, base + e.offset)));
            ch.push(i.if_branch.as_ref().map_or_else(|| missing("then"), |s| statement(&s.reference, base + s.offset)));
            if let Some(e) = &i.else_branch {
                ch.push(statement(&e.reference, base + e.offset));
            }
            node("If", &i.info, base, ch)
        }
        Statement::While(w) => {
            let mut ch = Vec::new();
            ch.push(w.condition.as_ref().map_or_else(|| missing("cond"), |e| expression(&e.reference, base + e.offset)));
            ch.push(w.statement.as_ref().map_or_else(|| missing("body"), |s| statement(&s.reference, base + s.offset)));
            node("While", &w.info, base, ch)
        }
        Statement::Block(b) => node(
            "Block",
            &b.info,
            base,
            b.statements.iter().map(|s| statement(&s.reference, base + s.offset)).collect(),
        ),
    }
}

pub fn global(g: &GlobalDeclaration, base: usize) -> RNode {
    match g {
        GlobalDeclaration::Error(info) => node("ErrorDecl", info, base, vec![]),
        GlobalDeclaration::Type(t) => {
            let mut n = node("TypeDec", &t.info, base, vec![opt_ident(&t.name, base), opt_type(&t.type_expr, base)]);
            n.doc = Some(t.doc.clone());
            n
        }
        GlobalDeclaration::Procedure(p) => {
            let mut ch = vec![opt_ident(&p.name, base)];
            for prm in &p.parameters {
                let b = base + prm.offset;
                ch.push(match &prm.reference {
                    ParameterDeclaration::Error(info) => node("ErrorParam", info, b, vec![]),
                    ParameterDeclaration::Valid { doc, is_ref, name, type_expr, info } => {
                        let mut n = node(
                            if *is_ref { "Param(ref)" } else { "Param" },
                            info,
                            b,
                            vec![opt_ident(name, b), opt_type(type_expr, b)],
                        );
                        n.doc = Some(doc.clone());
                        n
                    }
                });
            }
            for v in &p.variable_declarations {
                let b = base + v.offset;
                ch.push(match &v.reference {
                    VariableDeclaration::Error(info) => node("ErrorVarDec", info, b, vec![]),
                    VariableDeclaration::Valid { doc, name, type_expr, info } => {
                        let mut n = node("VarDec", info, b, vec![opt_ident(name, b), opt_type(type_expr, b)]);
                        n.doc = Some(doc.clone());
                        n
                    }
                });
            }
            for s in &p.statements {
                ch.push(statement(&s.reference, base + s.offset));
            }
            let mut n = node("ProcDec", &p.info, base, ch);
            n.doc = Some(p.doc.clone());
            n
        }
    }
}

pub fn program(p: &Program) -> RNode {
    node(
        "Program",
        &p.info,
        0,
        p.global_declarations.iter().map(|g| global(&g.reference, g.offset)).collect(),
    )
}

impl RNode {
    pub fn sexpr(&self) -> String {
        if self.children.is_empty() {
            self.kind.clone()
        } else {
            format!("({} {})", self.kind, self.children.iter().map(|c| c.sexpr()).collect::<Vec<_>>().join(" "))
        }
    }
    pub fn total_errors(&self) -> usize {
        self.errors + self.children.iter().map(|c| c.total_errors()).sum::<usize>()
    }
    /// the same tree with all ranges relative to this node's start
    pub fn relative(&self) -> RNode {
        fn rel(n: &RNode, by: usize) -> RNode {
            RNode {
                kind: n.kind.clone(),
                range: n.range.start.saturating_sub(by)..n.range.end.saturating_sub(by),
                doc: n.doc.clone(),
                errors: n.errors,
                children: n.children.iter().map(|c| rel(c, by)).collect(),
            }
        }
        rel(self, self.range.start)
    }
}

/// Compare the repository's tree with the derivation: shape, values, order, every node's absolute
/// token range (own tokens plus leading comments) and the documentation collected by declarations.
pub fn compare(expected: &ENode, laid: &Laid, got: &RNode, path: &str) -> Option<String> {
    compare_inner(expected, laid, got, path, false)
}

/// `doc_taken`: the comments in front of this node's first token were collected as documentation
/// by the enclosing declaration (a parameter without `ref` starts with its name).
fn compare_inner(expected: &ENode, laid: &Laid, got: &RNode, path: &str, doc_taken: bool) -> Option<String> {
    let here = format!("{}/{}", path, expected.kind);
    if expected.kind != got.kind {
        return Some(format!("{}: expected node {}, parser produced {}", path, expected.kind, got.kind));
    }
    let want_range = if expected.kind == "Program" {
        if laid.abs.is_empty() {
            0..0
        } else {
            0..(laid.abs[expected.last] + 1)
        }
    } else if doc_taken {
        laid.abs[expected.first]..(laid.abs[expected.last] + 1)
    } else {
        laid.node_range(expected.first, expected.last)
    };
    if want_range != got.range {
        return Some(format!(
            "{}: node covers tokens {:?}, its own tokens (with leading comments) are {:?}",
            here, got.range, want_range
        ));
    }
    if expected.has_doc {
        let want: Vec<String> = laid.gap_comments[expected.first].iter().map(|(c, _)| c.clone()).collect();
        if got.doc.as_ref() != Some(&want) {
            return Some(format!("{}: documentation {:?}, comments in front of it are {:?}", here, got.doc, want));
        }
    }
    if expected.children.len() != got.children.len() {
        return Some(format!(
            "{}: {} children, expected {}: got {} expected {}",
            here,
            got.children.len(),
            expected.children.len(),
            got.sexpr(),
            expected.sexpr()
        ));
    }
    for (e, g) in expected.children.iter().zip(&got.children) {
        let taken = expected.has_doc && e.first == expected.first;
        if let Some(d) = compare_inner(e, laid, g, &here, taken) {
            return Some(d);
        }
    }
    None
}

//! Development aids (not part of any registered check): minimise diverging single edits.
use crate::driver::catch;
use crate::props::c01;
use spl_frontend::{AnalyzedSource, TextChange};
use splgen::src::Src;
use std::collections::BTreeMap;

#[derive(Clone, Debug, PartialEq, Eq, Hash, PartialOrd, Ord)]
pub struct Mini {
    pub pre: String,
    pub del: String,
    pub suf: String,
    pub ins: String,
}

impl Mini {
    fn old(&self) -> String {
        format!("{}{}{}", self.pre, self.del, self.suf)
    }
    fn size(&self) -> usize {
        self.pre.len() + self.del.len() + self.suf.len() + self.ins.len()
    }
}

pub fn diverges(c: &Mini) -> Option<String> {
    let old = c.old();
    let ch = TextChange { range: c.pre.len()..c.pre.len() + c.del.len(), text: c.ins.clone() };
    match catch(move || {
        let a = AnalyzedSource::new(old);
        let u = a.update(vec![ch]);
        let f = AnalyzedSource::new(u.text.clone());
        c01::difference(&u, &f).map(|(k, _)| k.to_string())
    }) {
        Ok(x) => x,
        Err(sig) => Some(sig),
    }
}

fn variants(s: &str) -> Vec<String> {
    let b: Vec<usize> = s.char_indices().map(|(i, _)| i).chain(std::iter::once(s.len())).collect();
    let n = b.len() - 1;
    let mut out = Vec::new();
    let mut sz = n;
    while sz >= 1 {
        let mut i = 0;
        while i + sz <= n {
            out.push(format!("{}{}", &s[..b[i]], &s[b[i + sz]..]));
            i += sz;
        }
        if sz == 1 {
            break;
        }
        sz /= 2;
    }
    // spans of selected lengths at every position
    for len in [48usize, 32, 24, 16, 12, 8, 6, 5, 4, 3, 2, 1] {
        if len > n {
            continue;
        }
        for i in 0..=(n - len) {
            out.push(format!("{}{}", &s[..b[i]], &s[b[i + len]..]));
        }
    }
    for i in 0..n {
        let ch = &s[b[i]..b[i + 1]];
        if ch == "\n" || ch == "\t" || ch == "\r" {
            out.push(format!("{} {}", &s[..b[i]], &s[b[i + 1]..]));
        }
    }
    out
}

pub static KEEP_VALID: std::sync::atomic::AtomicBool = std::sync::atomic::AtomicBool::new(false);

fn both_valid(c: &Mini) -> bool {
    use spl_frontend::error::ErrorMessage;
    use spl_frontend::ErrorContainer;
    let old = c.old();
    let new = format!("{}{}{}", c.pre, c.ins, c.suf);
    catch(move || {
        [old, new].into_iter().all(|t| {
            AnalyzedSource::new(t).errors().iter().all(|e| !matches!(e.1, ErrorMessage::LexErrorMessage(_) | ErrorMessage::ParseErrorMessage(_)))
        })
    })
    .unwrap_or(false)
}

pub fn shrink(mut c: Mini, kind: &str) -> Mini {
    loop {
        let mut improved = false;
        for field in 0..4 {
            let cur = match field {
                0 => c.pre.clone(),
                1 => c.suf.clone(),
                2 => c.del.clone(),
                _ => c.ins.clone(),
            };
            for v in variants(&cur) {
                let mut c2 = c.clone();
                match field {
                    0 => c2.pre = v,
                    1 => c2.suf = v,
                    2 => c2.del = v,
                    _ => c2.ins = v,
                }
                if c2.del.is_empty() && c2.ins.is_empty() {
                    continue;
                }
                if KEEP_VALID.load(std::sync::atomic::Ordering::Relaxed) && !both_valid(&c2) {
                    continue;
                }
                if c2.size() < c.size() && diverges(&c2).as_deref() == Some(kind) {
                    c = c2;
                    improved = true;
                    break;
                }
            }
        }
        if !improved {
            return c;
        }
    }
}

pub fn minimise(n: usize, seed: u64) {
    let mut found: BTreeMap<(String, Mini), usize> = BTreeMap::new();
    let mut state = seed.wrapping_mul(0x9E3779B97F4A7C15) | 1;
    let mut total = 0;
    let mut failing = 0;
    for _ in 0..n {
        let mut bytes = vec![0u8; 1500];
        for b in bytes.iter_mut() {
            state = state.wrapping_mul(6364136223846793005).wrapping_add(1442695040888963407);
            *b = (state >> 33) as u8;
        }
        let case = c01::decode(&bytes);
        let mut cur = case.initial.clone();
        for batch in &case.history {
            for e in batch {
                total += 1;
                let m = Mini { pre: cur[..e.range.start].to_string(), del: cur[e.range.clone()].to_string(), suf: cur[e.range.end..].to_string(), ins: e.text.clone() };
                if let Some(kind) = diverges(&m) {
                    failing += 1;
                    let s = shrink(m, &kind);
                    *found.entry((kind, s)).or_default() += 1;
                }
                cur.replace_range(e.range.clone(), &e.text);
            }
        }
    }
    println!("edits {} diverging {} distinct minimal {}", total, failing, found.len());
    let mut v: Vec<_> = found.into_iter().collect();
    v.sort_by_key(|(_, c)| std::cmp::Reverse(*c));
    for ((k, c), cnt) in v.iter().take(60) {
        println!("{:4} {:10} old={:?} [{}..{}] <- {:?}", cnt, k, c.old(), c.pre.len(), c.pre.len() + c.del.len(), c.ins);
    }
    let _ = Src::new(&[]);
}

/// For a saved C01 replay: test every change of every batch separately (from a fresh state) and
/// every batch as a whole; print which fail, and minimise the single-change failures.
pub fn explain(path: &str) {
    let v: serde_json::Value = serde_json::from_str(&std::fs::read_to_string(path).unwrap()).unwrap();
    let c = &v["case"];
    let mut text = c["initial"].as_str().unwrap().to_string();
    for (i, b) in c["history"].as_array().unwrap().iter().enumerate() {
        let edits: Vec<(usize, usize, String)> = b.as_array().unwrap().iter().map(|e| (e["range"][0].as_u64().unwrap() as usize, e["range"][1].as_u64().unwrap() as usize, e["insert"].as_str().unwrap().to_string())).collect();
        // whole batch
        let t0 = text.clone();
        let changes: Vec<TextChange> = edits.iter().map(|(a, b, t)| TextChange { range: *a..*b, text: t.clone() }).collect();
        let whole = catch(move || {
            let a = AnalyzedSource::new(t0);
            let u = a.update(changes);
            let f = AnalyzedSource::new(u.text.clone());
            c01::difference(&u, &f).map(|(k, w)| format!("{}: {}", k, w))
        });
        println!("step {} ({} changes) as a batch: {:?}", i + 1, edits.len(), whole.map(|o| o.map(|s| s.chars().take(200).collect::<String>())));
        for (a, b, t) in &edits {
            let m = Mini { pre: text[..*a].to_string(), del: text[*a..*b].to_string(), suf: text[*b..].to_string(), ins: t.clone() };
            let d = diverges(&m);
            println!("   single change [{}..{}] <- {:?}: {:?}", a, b, t.chars().take(30).collect::<String>(), d);
            if let Some(kind) = d {
                KEEP_VALID.store(both_valid(&m), std::sync::atomic::Ordering::Relaxed);
                let s = shrink(m, &kind);
                println!("   minimal: old={:?} [{}..{}] <- {:?}", s.old(), s.pre.len(), s.pre.len() + s.del.len(), s.ins);
            }
            text.replace_range(*a..*b, t);
        }
    }
}

pub fn show_trees(old: &str, a: usize, b: usize, ins: &str) {
    let o = AnalyzedSource::new(old.to_string());
    let u = o.update(vec![TextChange { range: a..b, text: ins.to_string() }]);
    let f = AnalyzedSource::new(u.text.clone());
    println!("new text: {:?}", u.text);
    let x = format!("{:#?}", u.ast);
    let y = format!("{:#?}", f.ast);
    std::fs::write("/tmp/upd.txt", &x).unwrap();
    std::fs::write("/tmp/fresh.txt", &y).unwrap();
    println!("upd   {}", crate::walk::program(&u.ast).sexpr());
    println!("fresh {}", crate::walk::program(&f.ast).sexpr());
}

/// print the diagnostics of a text (development aid)
pub fn show_errors(text: &str) {
    use spl_frontend::ErrorContainer;
    let a = AnalyzedSource::new(text.to_string());
    for e in a.errors() {
        println!("{:?} {:?} {}", e.0, text.get(e.0.clone()), e.1.to_string().trim());
    }
}

/// Shrink a single change under an arbitrary predicate (character-level, all spans up to 48).
pub fn shrink_with(mut c: Mini, pred: &dyn Fn(&Mini) -> bool) -> Mini {
    let mut budget = 40_000usize;
    loop {
        let mut improved = false;
        for field in 0..4 {
            let cur = match field {
                0 => c.pre.clone(),
                1 => c.suf.clone(),
                2 => c.del.clone(),
                _ => c.ins.clone(),
            };
            for v in variants(&cur) {
                if budget == 0 {
                    return c;
                }
                let mut c2 = c.clone();
                match field {
                    0 => c2.pre = v,
                    1 => c2.suf = v,
                    2 => c2.del = v,
                    _ => c2.ins = v,
                }
                if c2.size() < c.size() {
                    budget -= 1;
                    if pred(&c2) {
                        c = c2;
                        improved = true;
                        break;
                    }
                }
            }
        }
        if !improved {
            return c;
        }
    }
}

impl Mini {
    pub fn old_text(&self) -> String {
        self.old()
    }
}

//! `check <ID> [--tier quick|thorough] [--replay FILE]` — see lib.rs.
fn main() {
    splverif::cli_main()
}

//! Triage oracle for C01 (DESIGN 5.3): replay a failing history on the pinned copy of the repaired
//! baseline (/verif/pinned, recorded in PINNED_AT.txt). Only a failure the pinned copy shows too
//! (same history, not later than the same step) is the recorded family `C01-tail`. The pinned copy
//! never makes a case pass for any other reason; a regression fails where the baseline does not.
use crate::driver::catch;
use crate::props::c01::Case;
use spl_frontend_pinned::{AnalyzedSource, ErrorContainer, TextChange};

/// Does the pinned copy fail on exactly this input: the fresh state of the text before step
/// `step` (the tree under test was in that state, it agreed with its own fresh analysis until
/// then) updated with the changes of step `step`?
pub fn fails_too(case: &Case, step: usize) -> bool {
    if step == 0 {
        let t0 = case.initial.clone();
        return catch(move || AnalyzedSource::new(t0)).is_err();
    }
    let mut text = case.initial.clone();
    for batch in case.history.iter().take(step - 1) {
        for e in batch {
            text.replace_range(e.range.clone(), &e.text);
        }
    }
    let batch = &case.history[step - 1];
    let changes: Vec<TextChange> = batch.iter().map(|e| TextChange { range: e.range.clone(), text: e.text.clone() }).collect();
    let before = match catch(move || AnalyzedSource::new(text)) {
        Ok(a) => a,
        Err(_) => return true,
    };
    let upd = match catch(move || before.update(changes)) {
        Ok(u) => u,
        Err(_) => return true,
    };
    let t = upd.text.clone();
    let fresh = match catch(move || AnalyzedSource::new(t)) {
        Ok(f) => f,
        Err(_) => return true,
    };
    !catch(|| upd.text == fresh.text && upd.tokens == fresh.tokens && upd.ast == fresh.ast && upd.table == fresh.table && upd.errors() == fresh.errors())
        .unwrap_or(false)
}

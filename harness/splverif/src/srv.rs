//! Engine A: the language server's document broker and feature handlers, in process. The broker
//! task (`document::broker`) is driven through its real mpsc channel on a current-thread tokio
//! runtime, exactly as the repository's own tests do.

use crate::document::{self, DocumentRequest};
use crate::driver::take_last_panic;
use crate::io::Message;
use lsp_types::*;
use spl_frontend::AnalyzedSource;
use splgen::lsp::Pos;
use std::cell::RefCell;
use std::future::Future;
use tokio::sync::{mpsc, oneshot};
use tokio::task::JoinHandle;

thread_local! {
    static RT: RefCell<Option<tokio::runtime::Runtime>> = const { RefCell::new(None) };
}

pub fn block_on<F: Future>(f: F) -> F::Output {
    RT.with(|rt| {
        let mut rt = rt.borrow_mut();
        if rt.is_none() {
            *rt = Some(tokio::runtime::Builder::new_current_thread().enable_all().build().expect("runtime"));
        }
        rt.as_ref().unwrap().block_on(f)
    })
}

pub struct Srv {
    pub doctx: mpsc::Sender<DocumentRequest>,
    pub iorx: mpsc::Receiver<Message>,
    handle: JoinHandle<()>,
}

pub fn uri(s: &str) -> Url {
    Url::parse(s).expect("uri")
}

pub fn default_uri() -> Url {
    uri("file:///work/t.spl")
}

pub fn lsp_pos(p: Pos) -> Position {
    Position { line: p.line, character: p.character }
}

pub fn from_lsp(p: Position) -> Pos {
    Pos { line: p.line, character: p.character }
}

impl Srv {
    pub fn new(diagnostics: bool) -> Self {
        let (iotx, iorx) = mpsc::channel(4096);
        let (doctx, docrx) = mpsc::channel(32);
        let handle = block_on(async { tokio::spawn(document::broker(docrx, iotx, diagnostics)) });
        Self { doctx, iorx, handle }
    }

    /// Err(panic signature) if the broker task died.
    pub fn settle(&mut self) -> Result<(), String> {
        // a GetInfo round trip on an unknown document forces everything queued before it through
        let _ = self.info(&uri("file:///nonexistent/settle"));
        if self.handle.is_finished() {
            let (file, msg) = take_last_panic().unwrap_or_default();
            return Err(crate::driver::panic_sig(&file, &msg));
        }
        Ok(())
    }

    pub fn open(&mut self, uri: &Url, text: &str) {
        let doctx = self.doctx.clone();
        let p = DidOpenTextDocumentParams {
            text_document: TextDocumentItem { uri: uri.clone(), language_id: "spl".into(), version: 0, text: text.to_string() },
        };
        let _ = block_on(document::open(doctx, p));
    }

    pub fn change(&mut self, uri: &Url, changes: Vec<TextDocumentContentChangeEvent>) {
        let doctx = self.doctx.clone();
        let p = DidChangeTextDocumentParams {
            text_document: VersionedTextDocumentIdentifier { uri: uri.clone(), version: 1 },
            content_changes: changes,
        };
        let _ = block_on(document::change(doctx, p));
    }

    pub fn close(&mut self, uri: &Url) {
        let doctx = self.doctx.clone();
        let p = DidCloseTextDocumentParams { text_document: TextDocumentIdentifier { uri: uri.clone() } };
        let _ = block_on(document::close(doctx, p));
    }

    pub fn info(&mut self, uri: &Url) -> Option<AnalyzedSource> {
        let doctx = self.doctx.clone();
        let uri = uri.clone();
        block_on(async move {
            let (tx, rx) = oneshot::channel();
            if doctx.send(DocumentRequest::GetInfo(uri, tx)).await.is_err() {
                return None;
            }
            rx.await.ok().flatten()
        })
    }

    /// all publishDiagnostics notifications emitted so far, in order
    pub fn diagnostics(&mut self) -> Vec<PublishDiagnosticsParams> {
        let mut out = Vec::new();
        while let Ok(m) = self.iorx.try_recv() {
            if let Message::Notification(n) = m {
                if n.method == "textDocument/publishDiagnostics" {
                    if let Ok(p) = serde_json::from_value::<PublishDiagnosticsParams>(n.params) {
                        out.push(p);
                    }
                }
            }
        }
        out
    }
}

impl Drop for Srv {
    fn drop(&mut self) {
        self.handle.abort();
    }
}

pub fn tdp(uri: &Url, p: Pos) -> TextDocumentPositionParams {
    TextDocumentPositionParams { text_document: TextDocumentIdentifier { uri: uri.clone() }, position: lsp_pos(p) }
}

pub fn change_event(range: Option<(Pos, Pos)>, text: &str) -> TextDocumentContentChangeEvent {
    TextDocumentContentChangeEvent {
        range: range.map(|(s, e)| Range { start: lsp_pos(s), end: lsp_pos(e) }),
        range_length: None,
        text: text.to_string(),
    }
}

//! Triage oracle for the recorded findings of the feature properties (C10, C12-C16): the pinned
//! copy of the document broker and the handlers (`pinned/lsp4spl_pinned` over
//! `pinned/spl_frontend_pinned`, the repaired baseline). A failing case of a recorded class counts
//! as that recorded finding only if the tree under test answers the failing request exactly as the
//! baseline does; any other answer is a different violation and is reported (DESIGN.md 5.4).
//! The pinned copy is never used to decide what is correct.

use crate::driver::catch;
use crate::props::c19::canonical;
use crate::srv::block_on;
use lsp4spl_pinned::document::{self, DocumentRequest};
use lsp4spl_pinned::features;
use lsp_types::*;
use serde_json::{json, Value};
use tokio::sync::mpsc;

/// the baseline's answer to one request on a freshly opened document
pub fn answer(method: &str, uri: &Url, text: &str, params: Value) -> Result<Value, String> {
    let (iotx, _iorx) = mpsc::channel(64);
    let (doctx, docrx) = mpsc::channel(32);
    let handle = block_on(async { tokio::spawn(document::broker(docrx, iotx, false)) });
    let open = DidOpenTextDocumentParams { text_document: TextDocumentItem { uri: uri.clone(), language_id: "spl".into(), version: 0, text: text.to_string() } };
    let _ = block_on(document::open(doctx.clone(), open));
    macro_rules! call {
        ($f:path) => {{
            let args = serde_json::from_value(params).map_err(|e| format!("harness: params do not deserialize: {}", e))?;
            let d = doctx.clone();
            let out = catch(|| block_on($f(d, args)))?;
            let v = out.map_err(|e| format!("handler-error: {}", e))?;
            Ok(serde_json::to_value(v).unwrap_or(Value::Null))
        }};
    }
    let res: Result<Value, String> = match method {
        "textDocument/declaration" => call!(features::goto::declaration),
        "textDocument/definition" => call!(features::goto::definition),
        "textDocument/implementation" => call!(features::goto::implementation),
        "textDocument/typeDefinition" => call!(features::goto::type_definition),
        "textDocument/references" => call!(features::references::find),
        "textDocument/hover" => call!(features::hover),
        "textDocument/rename" => call!(features::references::rename),
        "textDocument/prepareRename" => call!(features::references::prepare_rename),
        "textDocument/completion" => call!(features::completion::propose),
        "textDocument/foldingRange" => call!(features::fold),
        "textDocument/semanticTokens/full" => call!(features::semantic_tokens),
        "textDocument/signatureHelp" => call!(features::signature_help),
        "textDocument/formatting" => call!(features::format),
        other => Err(format!("harness: unknown method {}", other)),
    };
    handle.abort();
    res
}

/// Does the tree under test answer this request exactly as the recorded baseline does?
/// `tree` is the tree's result serialised like a response (`null` for none).
pub fn baseline_agrees(method: &str, uri: &Url, text: &str, params: Value, tree: &Value) -> bool {
    match answer(method, uri, text, params) {
        Ok(v) => canonical(&v) == canonical(tree),
        Err(_) => false,
    }
}

/// Like `baseline_agrees`, on the part of the answers the property speaks about (`project`), so
/// that a change of details the property leaves open (snippet texts, item details, blank lines)
/// does not turn a recorded finding into an alarm.
pub fn baseline_agrees_on(method: &str, uri: &Url, text: &str, params: Value, tree: &Value, project: impl Fn(&Value) -> Value) -> bool {
    match answer(method, uri, text, params) {
        Ok(v) => project(&v) == project(tree),
        Err(_) => false,
    }
}

/// sorted (start line, start character, end line, end character[, new text]) of locations / edits
pub fn ranges_of(v: &Value) -> Value {
    fn collect(v: &Value, out: &mut Vec<String>) {
        match v {
            Value::Object(m) => {
                if let Some(r) = m.get("range") {
                    out.push(format!("{}|{}|{}", m.get("uri").map_or(String::new(), |u| u.to_string()), r, m.get("newText").map_or(String::new(), |t| t.to_string())));
                }
                for (k, x) in m {
                    if k != "range" {
                        collect(x, out);
                    }
                }
            }
            Value::Array(a) => a.iter().for_each(|x| collect(x, out)),
            _ => {}
        }
    }
    let mut out = Vec::new();
    collect(v, &mut out);
    out.sort();
    json!(out)
}

/// signature of a failing case of a recorded class: unchanged if the baseline answers alike,
/// otherwise marked so that it is not taken for the recorded finding
pub fn triage(sig: String, agrees: bool) -> String {
    if agrees {
        sig
    } else {
        format!("{}|answer-differs-from-recorded-baseline", sig)
    }
}

pub fn position_params(method: &str, uri: &Url, line: u32, character: u32) -> Value {
    crate::props::c18::supported_params(method, uri.as_str(), line, character)
}

pub fn formatting_params(uri: &Url, tab_size: u32, insert_spaces: bool) -> Value {
    json!({ "textDocument": { "uri": uri.as_str() }, "options": { "tabSize": tab_size, "insertSpaces": insert_spaces } })
}

//! Glue between the repository's token type and the reference lexer; tiling invariants.

use spl_frontend::tokens::{IntResult, Token, TokenType};
use splgen::reflex::{RKind, RTok};

pub fn to_rkind(t: &Token) -> RKind {
    use TokenType::*;
    match &t.token_type {
        LParen => RKind::Sym("("),
        RParen => RKind::Sym(")"),
        LBracket => RKind::Sym("["),
        RBracket => RKind::Sym("]"),
        LCurly => RKind::Sym("{"),
        RCurly => RKind::Sym("}"),
        Eq => RKind::Sym("="),
        Neq => RKind::Sym("#"),
        Lt => RKind::Sym("<"),
        Le => RKind::Sym("<="),
        Gt => RKind::Sym(">"),
        Ge => RKind::Sym(">="),
        Assign => RKind::Sym(":="),
        Colon => RKind::Sym(":"),
        Comma => RKind::Sym(","),
        Semic => RKind::Sym(";"),
        Plus => RKind::Sym("+"),
        Minus => RKind::Sym("-"),
        Times => RKind::Sym("*"),
        Divide => RKind::Sym("/"),
        If => RKind::Kw("if"),
        Else => RKind::Kw("else"),
        While => RKind::Kw("while"),
        Array => RKind::Kw("array"),
        Of => RKind::Kw("of"),
        Proc => RKind::Kw("proc"),
        Ref => RKind::Kw("ref"),
        Type => RKind::Kw("type"),
        Var => RKind::Kw("var"),
        Ident(s) => RKind::Ident(s.clone()),
        Char(c) => RKind::Char(*c, t.errors.is_empty()),
        Int(IntResult::Int(v)) => RKind::Int(Some(*v)),
        Int(IntResult::Err(_)) => RKind::Int(None),
        Hex(IntResult::Int(v)) => RKind::Hex(Some(*v)),
        Hex(IntResult::Err(_)) => RKind::Hex(None),
        Comment(s) => RKind::Comment(s.clone()),
        Unknown(s) => RKind::Unknown(s.chars().next().unwrap_or('\u{0}')),
        Eof => RKind::Eof,
    }
}

/// Tiling invariants of C06 (first sentence). Returns a description of the first violation.
pub fn tiling_violation(text: &str, toks: &[Token]) -> Option<String> {
    if toks.is_empty() {
        return Some("no tokens at all (not even end-of-file)".into());
    }
    let n = text.len();
    let mut pos = 0usize;
    for (i, t) in toks.iter().enumerate() {
        let r = &t.range;
        if r.start > r.end || r.end > n {
            return Some(format!("token {} has range {:?} outside the text of length {}", i, r, n));
        }
        if !text.is_char_boundary(r.start) || !text.is_char_boundary(r.end) {
            return Some(format!("token {} range {:?} is not on character boundaries", i, r));
        }
        if r.start < pos {
            return Some(format!("token {} range {:?} overlaps or precedes its predecessor ending at {}", i, r, pos));
        }
        let gap = &text[pos..r.start];
        if let Some(c) = gap.chars().find(|c| !c.is_whitespace()) {
            return Some(format!("gap before token {} ({:?}) contains non-whitespace {:?}: a character was dropped", i, r, c));
        }
        let is_last = i + 1 == toks.len();
        let is_eof = matches!(t.token_type, TokenType::Eof);
        if is_eof != is_last {
            return Some(format!("end-of-file token at index {} of {} tokens", i, toks.len()));
        }
        if is_eof {
            if r.start != n || r.end != n {
                return Some(format!("end-of-file token has range {:?}, text length {}", r, n));
            }
        } else if r.is_empty() {
            return Some(format!("token {} is empty at {:?}", i, r));
        }
        for e in &t.errors {
            if e.0.start < r.start || e.0.end > r.end || e.0.start > e.0.end {
                return Some(format!("lexical error range {:?} lies outside its token {:?}", e.0, r));
            }
        }
        // the token's value agrees with the characters it covers
        let slice = &text[r.clone()];
        let ok = match &t.token_type {
            TokenType::Ident(s) | TokenType::Unknown(s) => s == slice,
            TokenType::Comment(c) => {
                slice.strip_prefix("//").map_or(false, |rest| rest == c || rest.strip_suffix('\n') == Some(c.as_str()))
            }
            TokenType::Int(_) => !slice.is_empty() && slice.bytes().all(|b| b.is_ascii_digit()),
            TokenType::Hex(_) => slice.starts_with("0x"),
            TokenType::Char(_) => slice.starts_with('\''),
            TokenType::Eof => slice.is_empty(),
            other => match to_rkind_static(other) {
                Some(s) => s == slice,
                None => true,
            },
        };
        if !ok {
            return Some(format!("token {} {:?} does not spell the text it covers {:?}", i, t.token_type, slice));
        }
        pos = r.end;
    }
    if pos != n {
        return Some(format!("tokens end at {} but the text has length {}", pos, n));
    }
    None
}

fn to_rkind_static(t: &TokenType) -> Option<&'static str> {
    let tok = Token::new(t.clone(), 0..0);
    match to_rkind(&tok) {
        RKind::Sym(s) | RKind::Kw(s) => Some(s),
        _ => None,
    }
}

/// Conformance: kinds, values and ranges equal the reference lexer's.
pub fn conformance_violation(text: &str, toks: &[Token], reference: &[RTok]) -> Option<String> {
    if toks.len() != reference.len() {
        return Some(format!(
            "{} tokens, the lexical grammar yields {}: got {:?}, expected {:?}",
            toks.len(),
            reference.len(),
            toks.iter().map(|t| to_rkind(t)).collect::<Vec<_>>(),
            reference.iter().map(|t| t.kind.clone()).collect::<Vec<_>>()
        ));
    }
    for (i, (t, r)) in toks.iter().zip(reference).enumerate() {
        let k = to_rkind(t);
        if k != r.kind {
            return Some(format!("token {}: got {:?}, the lexical grammar yields {:?}", i, k, r.kind));
        }
        let range_ok = if r.is_comment() {
            t.range.start == r.range.start
                && (t.range.end == r.range.end
                    || (t.range.end == r.range.end + 1 && text.as_bytes().get(r.range.end) == Some(&b'\n')))
        } else {
            t.range == r.range
        };
        if !range_ok {
            return Some(format!("token {} {:?}: range {:?}, expected {:?}", i, k, t.range, r.range));
        }
    }
    None
}

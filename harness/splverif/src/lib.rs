//! `check <ID> [--tier quick|thorough] [--replay FILE]` — decides one property of LSP4SPL by
//! property-based testing / bounded-exhaustive enumeration against explicit oracles.
#![allow(dead_code, unused_imports, clippy::all)]

// The binary crate `lsp4spl` has no library target: its sources are compiled here as modules
// (symlinks into /repo/lsp4spl/src), so `crate::document::…` paths resolve unchanged.
include!("repo_mods.rs");

pub mod devtools;
pub mod driver;
pub mod lexglue;
pub mod pinned_lsp;
pub mod pinned_triage;
pub mod props;
pub mod session;
pub mod srv;
pub mod walk;

use driver::*;

/// Former failures kept as a seconds-long regression tier: /verif/corpus/<ID>/*.json
pub fn corpus_part(ctx: &Ctx, checks: &[Box<dyn Check>]) -> Part {
    let dir = format!("{}/corpus/{}", verif_root(), ctx.id);
    let mut total = Part { name: "corpus-replays".into(), ..Default::default() };
    let mut files: Vec<_> = std::fs::read_dir(&dir)
        .map(|d| d.filter_map(|e| e.ok()).map(|e| e.path()).collect())
        .unwrap_or_default();
    files.sort();
    for f in files {
        let Ok(text) = std::fs::read_to_string(&f) else { continue };
        let Ok(v) = serde_json::from_str::<serde_json::Value>(&text) else { continue };
        let part = v["part"].as_str().unwrap_or("");
        let bytes = unhex(v["bytes"].as_str().unwrap_or(""));
        for c in checks {
            if c.part() == part {
                let p = run_list(ctx, c.as_ref(), "corpus-replays", &[bytes.clone()], false);
                merge(&mut total, p);
            }
        }
    }
    total
}

pub fn cli_main() {
    let args: Vec<String> = std::env::args().collect();
    if args.len() < 2 {
        eprintln!("usage: check <ID> [--tier quick|thorough] [--replay FILE]");
        std::process::exit(2);
    }
    let id = args[1].clone();
    if id == "DEV-ERRORS" {
        install_panic_hook();
        devtools::show_errors(&args[2]);
        return;
    }
    if id == "DEV-TREES" {
        install_panic_hook();
        devtools::show_trees(&args[2], args[3].parse().unwrap(), args[4].parse().unwrap(), &args[5]);
        return;
    }
    if id == "DEV-EXPLAIN" {
        install_panic_hook();
        devtools::explain(&args[2]);
        return;
    }
    if id == "DEV-MIN" {
        install_panic_hook();
        devtools::minimise(args.get(2).and_then(|s| s.parse().ok()).unwrap_or(2000), args.get(3).and_then(|s| s.parse().ok()).unwrap_or(1));
        return;
    }
    let mut tier = std::env::var("VERIF_TIER").unwrap_or_else(|_| "quick".into());
    let mut replay_file = None;
    let mut i = 2;
    while i < args.len() {
        match args[i].as_str() {
            "--tier" => {
                tier = args.get(i + 1).cloned().unwrap_or(tier);
                i += 1;
            }
            "--replay" => {
                replay_file = args.get(i + 1).cloned();
                i += 1;
            }
            _ => {}
        }
        i += 1;
    }
    if tier != "thorough" {
        tier = "quick".into();
    }
    let seed: u64 = std::env::var("VERIF_SEED").ok().and_then(|s| s.trim().parse::<i64>().ok()).map(|v| v as u64).unwrap_or(1);
    install_panic_hook();
    let ctx = Ctx::new(&id, &tier, seed);
    start_case_monitor(&id);
    let code = match std::panic::catch_unwind(std::panic::AssertUnwindSafe(|| props::dispatch(&ctx, replay_file.as_deref()))) {
        Ok(c) => c,
        Err(_) => {
            eprintln!("harness error: the checking machinery itself panicked; inconclusive");
            2
        }
    };
    std::process::exit(code);
}

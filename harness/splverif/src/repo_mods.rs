mod document;
mod error;
mod features;
mod io;

//! Drivers: seeded property-based runs (proptest `TestRunner` over a byte string, 16 workers),
//! bounded-exhaustive enumeration, known-finding handling, shrinking, replay files, evidence.

use proptest::collection::vec;
use proptest::prelude::any;
use proptest::test_runner::{Config, RngAlgorithm, TestCaseError, TestError, TestRng, TestRunner};
use serde_json::{json, Value};
use splgen::src::fnv;
use std::collections::{BTreeMap, HashSet};
use std::sync::atomic::{AtomicBool, AtomicU64, Ordering};
use std::sync::Mutex;
use std::time::Instant;

#[derive(Clone, Debug)]
pub struct Failure {
    /// signature: what fails, computed from the input side where possible
    pub sig: String,
    pub what: String,
    pub detail: Value,
}

#[derive(Clone, Debug, Default)]
pub struct CaseResult {
    /// hash of the decoded case (distinct counting)
    pub key: u64,
    pub nontrivial: bool,
    /// oracle evaluations inside this case (steps, requests, ...); at least 1
    pub evals: u64,
    pub labels: Vec<String>,
    /// sub-cases excluded by construction (outside the property's domain), by reason
    pub excluded: Vec<String>,
    pub failures: Vec<Failure>,
}

impl CaseResult {
    pub fn new(key: u64) -> Self {
        Self { key, evals: 1, ..Default::default() }
    }
    pub fn label(&mut self, l: impl Into<String>) {
        self.labels.push(l.into());
    }
    pub fn fail(&mut self, sig: impl Into<String>, what: impl Into<String>, detail: Value) {
        let sig = sig.into();
        if !self.failures.iter().any(|f| f.sig == sig) {
            self.failures.push(Failure { sig, what: what.into(), detail });
        }
    }
}

pub trait Check: Sync {
    fn part(&self) -> &'static str;
    fn max_len(&self) -> usize;
    fn run(&self, bytes: &[u8]) -> CaseResult;
    /// readable decoded case
    fn describe(&self, bytes: &[u8]) -> Value;
    /// bound on library shrink steps (expensive cases lower it)
    fn shrink_iters(&self) -> u32 {
        3000
    }
    /// domain-aware second shrinking pass: an equivalent smaller case, possibly in the encoding
    /// of another part (which must be listed in the property's `checks()` for replay)
    fn minimise(&self, _bytes: &[u8]) -> Option<(Box<dyn Check>, Vec<u8>)> {
        None
    }
}

#[derive(Clone, Debug, Default)]
pub struct Part {
    pub name: String,
    pub cases: u64,
    pub evaluations: u64,
    pub nontrivial_keys: HashSet<u64>,
    pub labels: BTreeMap<String, u64>,
    pub excluded: BTreeMap<String, u64>,
    pub known: BTreeMap<String, (u64, String)>,
    pub samples: Vec<Value>,
    pub exhaustive: bool,
    pub violation: Option<Violation>,
    pub wall_s: f64,
}

#[derive(Clone, Debug)]
pub struct Violation {
    pub sig: String,
    pub what: String,
    pub replay: String,
}

pub struct Known {
    /// property -> sig -> description
    pub map: BTreeMap<String, BTreeMap<String, String>>,
    pub survey: Option<String>,
}

impl Known {
    pub fn load() -> Self {
        let mut map: BTreeMap<String, BTreeMap<String, String>> = BTreeMap::new();
        let text = std::fs::read_to_string(format!("{}/known_findings.txt", verif_root())).unwrap_or_default();
        for line in text.lines() {
            let line = line.trim();
            if let Some(rest) = line.strip_prefix("known:") {
                let rest = rest.trim();
                let mut prop = None;
                let mut sig = None;
                let mut desc = Vec::new();
                for w in rest.split_whitespace() {
                    if let Some(p) = w.strip_prefix("property=") {
                        if prop.is_none() {
                            prop = Some(p.to_string());
                            continue;
                        }
                    }
                    if let Some(s) = w.strip_prefix("sig=") {
                        if sig.is_none() {
                            sig = Some(s.to_string());
                            continue;
                        }
                    }
                    desc.push(w);
                }
                if let (Some(p), Some(s)) = (prop, sig) {
                    map.entry(p).or_default().insert(s, desc.join(" "));
                }
            }
        }
        let survey = std::env::var("VERIF_SURVEY").ok().filter(|v| v == "1").map(|_| "(survey mode, not a verdict)".to_string());
        Self { map, survey }
    }
    pub fn get(&self, prop: &str, sig: &str) -> Option<&String> {
        if let Some(s) = &self.survey {
            // development aid (VERIF_SURVEY=1): count every failure class instead of stopping
            return Some(s);
        }
        self.map.get(prop).and_then(|m| m.get(sig))
    }
}

pub fn verif_root() -> String {
    std::env::var("VERIF_ROOT").unwrap_or_else(|_| "/verif".to_string())
}

pub struct Ctx {
    pub id: String,
    pub tier: String,
    pub seed: u64,
    pub known: Known,
    pub workers: usize,
    pub started: Instant,
}

impl Ctx {
    pub fn new(id: &str, tier: &str, seed: u64) -> Self {
        let workers = std::env::var("VERIF_WORKERS").ok().and_then(|w| w.parse().ok()).unwrap_or(16);
        Self { id: id.to_string(), tier: tier.to_string(), seed, known: Known::load(), workers, started: Instant::now() }
    }
    pub fn thorough(&self) -> bool {
        self.tier == "thorough"
    }
    /// pick the case count for the tier
    pub fn n(&self, quick: u64, thorough: u64) -> u64 {
        let scale: f64 = std::env::var("VERIF_SCALE").ok().and_then(|s| s.parse().ok()).unwrap_or(1.0);
        let base = if self.thorough() { thorough } else { quick };
        ((base as f64) * scale).max(1.0) as u64
    }
}

fn hex(bytes: &[u8]) -> String {
    bytes.iter().map(|b| format!("{:02x}", b)).collect()
}

pub fn unhex(s: &str) -> Vec<u8> {
    (0..s.len() / 2).map(|i| u8::from_str_radix(&s[2 * i..2 * i + 2], 16).unwrap_or(0)).collect()
}

// ---- in-process watchdog -----------------------------------------------------------------------
// Engine A runs the code under test on the check's own threads; a case that does not terminate would
// hang the check for ever. Every executed case is registered; a monitor thread ends the process when
// one runs longer than VERIF_CASE_LIMIT_S (default 240 s; the slowest legitimate case - an Engine B
// session that hits its own 3 x 20 s watchdog - stays far below). Non-termination is what C02 is
// about: there it is a violation with a replay file; for every other property the run is
// inconclusive (exit 2), never a violation.
struct RunningCase {
    started: Instant,
    part: String,
    bytes: Vec<u8>,
}

static RUNNING: Mutex<Vec<(std::thread::ThreadId, RunningCase)>> = Mutex::new(Vec::new());

pub fn run_guarded(check: &dyn Check, bytes: &[u8]) -> CaseResult {
    let me = std::thread::current().id();
    if let Ok(mut g) = RUNNING.lock() {
        g.retain(|(t, _)| *t != me);
        g.push((me, RunningCase { started: Instant::now(), part: check.part().to_string(), bytes: bytes.to_vec() }));
    }
    let r = check.run(bytes);
    if let Ok(mut g) = RUNNING.lock() {
        g.retain(|(t, _)| *t != me);
    }
    r
}

pub fn start_case_monitor(id: &str) {
    let id = id.to_string();
    let limit = std::env::var("VERIF_CASE_LIMIT_S").ok().and_then(|v| v.parse::<u64>().ok()).unwrap_or(240);
    std::thread::spawn(move || loop {
        std::thread::sleep(std::time::Duration::from_millis(500));
        let overdue = RUNNING.lock().ok().and_then(|g| g.iter().find(|(_, c)| c.started.elapsed().as_secs() >= limit).map(|(_, c)| (c.part.clone(), c.bytes.clone())));
        if let Some((part, bytes)) = overdue {
            if id == "C02" {
                let dir = format!("{}/replays", verif_root());
                let _ = std::fs::create_dir_all(&dir);
                let path = format!("{}/{}-{:016x}.json", dir, id, fnv(&bytes) ^ 0x4a46);
                let v = json!({
                    "property": id, "part": part, "bytes": hex(&bytes), "sig": "does-not-terminate",
                    "what": format!("a case of part {} has been running for {} s: analysis or a handler does not terminate", part, limit),
                });
                let _ = std::fs::write(&path, serde_json::to_string_pretty(&v).unwrap());
                println!("  failure: a case of part {} has been running for {} s: analysis or a handler does not terminate (does-not-terminate)", part, limit);
                println!("VIOLATION property={} replay={}", id, path);
                std::process::exit(1);
            } else {
                eprintln!("INCONCLUSIVE property={}: a case of part {} has been running for {} s (non-termination of the code under test is C02's subject); bytes={}", id, part, limit, hex(&bytes));
                std::process::exit(2);
            }
        }
    });
}

fn write_replay(ctx: &Ctx, check: &dyn Check, bytes: &[u8], f: &Failure) -> String {
    let dir = format!("{}/replays", verif_root());
    let _ = std::fs::create_dir_all(&dir);
    let h = fnv(bytes) ^ fnv(f.sig.as_bytes());
    let path = format!("{}/{}-{:016x}.json", dir, ctx.id, h);
    let v = json!({
        "property": ctx.id,
        "part": check.part(),
        "bytes": hex(bytes),
        "sig": f.sig,
        "what": f.what,
        "detail": f.detail,
        "case": check.describe(bytes),
    });
    let _ = std::fs::write(&path, serde_json::to_string_pretty(&v).unwrap());
    path
}

struct Shared {
    cases: AtomicU64,
    evaluations: AtomicU64,
    stop: AtomicBool,
    inner: Mutex<Part>,
}

/// Account one executed case (not used while shrinking).
fn account(part: &mut Part, ctx: &Ctx, check: &dyn Check, bytes: &[u8], r: &CaseResult) -> Option<Failure> {
    part.cases += 1;
    part.evaluations += r.evals.max(1);
    if r.nontrivial {
        part.nontrivial_keys.insert(r.key);
    }
    for l in &r.labels {
        *part.labels.entry(l.clone()).or_default() += 1;
    }
    for e in &r.excluded {
        *part.excluded.entry(e.clone()).or_default() += 1;
    }
    let mut unknown = None;
    for f in &r.failures {
        if let Some(desc) = ctx.known.get(&ctx.id, &f.sig) {
            let e = part.known.entry(f.sig.clone()).or_insert((0, desc.clone()));
            e.0 += 1;
        } else if unknown.is_none() {
            unknown = Some(f.clone());
        }
    }
    if part.samples.len() < 3 && (r.nontrivial || part.cases > 50) && r.failures.is_empty() {
        part.samples.push(check.describe(bytes));
    }
    unknown
}

fn unknown_failure(ctx: &Ctx, r: &CaseResult, want_sig: Option<&str>) -> Option<Failure> {
    r.failures
        .iter()
        .find(|f| {
            ctx.known.get(&ctx.id, &f.sig).is_none()
                && want_sig.map_or(true, |w| sig_class(&f.sig) == sig_class(w))
        })
        .cloned()
}

fn sig_class(sig: &str) -> &str {
    sig.split('|').next().unwrap_or(sig)
}

/// Seeded property-based run with `ctx.workers` workers; stops all workers at the first unknown
/// failure, shrinks it with the library and writes the replay file.
pub fn run_pbt(ctx: &Ctx, check: &dyn Check, cases: u64) -> Part {
    let t0 = Instant::now();
    let shared = Shared {
        cases: AtomicU64::new(0),
        evaluations: AtomicU64::new(0),
        stop: AtomicBool::new(false),
        inner: Mutex::new(Part { name: check.part().to_string(), ..Default::default() }),
    };
    let workers = ctx.workers.max(1) as u64;
    let found: Mutex<Option<(Vec<u8>, Failure)>> = Mutex::new(None);
    std::thread::scope(|scope| {
        for w in 0..workers {
            let shared = &shared;
            let found = &found;
            let my_cases = cases / workers + if w < cases % workers { 1 } else { 0 };
            scope.spawn(move || {
                if my_cases == 0 {
                    return;
                }
                let mut seed = [0u8; 32];
                let s1 = fnv(format!("{}|{}|{}|{}", ctx.id, check.part(), ctx.seed, w).as_bytes());
                let s2 = fnv(format!("{}-{}", s1, ctx.seed).as_bytes());
                seed[..8].copy_from_slice(&s1.to_le_bytes());
                seed[8..16].copy_from_slice(&s2.to_le_bytes());
                seed[16..24].copy_from_slice(&ctx.seed.to_le_bytes());
                seed[24..32].copy_from_slice(&w.to_le_bytes());
                let config = Config {
                    cases: my_cases.min(u32::MAX as u64) as u32,
                    failure_persistence: None,
                    max_shrink_iters: check.shrink_iters(),
                    max_shrink_time: 120_000,
                    ..Config::default()
                };
                let mut runner = TestRunner::new_with_rng(config, TestRng::from_seed(RngAlgorithm::ChaCha, &seed));
                let local = Mutex::new(Part { name: check.part().to_string(), ..Default::default() });
                let failing_sig: Mutex<Option<String>> = Mutex::new(None);
                // the failure as first observed: kept if the shrunk case does not fail again
                // (a timing-dependent violation must not vanish in the final re-run)
                let first: Mutex<Option<(Vec<u8>, Failure)>> = Mutex::new(None);
                let strategy = vec(any::<u8>(), 0..=check.max_len());
                let result = runner.run(&strategy, |bytes| {
                    let shrinking = failing_sig.lock().unwrap().clone();
                    if shrinking.is_none() && shared.stop.load(Ordering::Relaxed) {
                        return Ok(());
                    }
                    let r = run_guarded(check, &bytes);
                    match shrinking {
                        None => {
                            if let Some(f) = account(&mut local.lock().unwrap(), ctx, check, &bytes, &r) {
                                *failing_sig.lock().unwrap() = Some(f.sig.clone());
                                *first.lock().unwrap() = Some((bytes.clone(), f.clone()));
                                shared.stop.store(true, Ordering::Relaxed);
                                return Err(TestCaseError::fail(f.sig));
                            }
                            Ok(())
                        }
                        Some(sig) => match unknown_failure(ctx, &r, Some(&sig)) {
                            Some(f) => Err(TestCaseError::fail(f.sig)),
                            None => Ok(()),
                        },
                    }
                });
                if let Err(TestError::Fail(_, bytes)) = result {
                    let sig = failing_sig.lock().unwrap().clone();
                    let r = run_guarded(check, &bytes);
                    let confirmed = unknown_failure(ctx, &r, sig.as_deref()).map(|f| (bytes, f)).or_else(|| {
                        first.lock().unwrap().take().map(|(b, mut f)| {
                            f.what = format!("{} [observed once; the shrunk case did not fail again when re-run, so the original case is kept: schedule or timing dependent]", f.what);
                            (b, f)
                        })
                    });
                    if let Some((bytes, f)) = confirmed {
                        let mut g = found.lock().unwrap();
                        let better = match &*g {
                            None => true,
                            Some((b, _)) => bytes.len() < b.len(),
                        };
                        if better {
                            *g = Some((bytes, f));
                        }
                    }
                }
                // merge
                let local = local.into_inner().unwrap();
                shared.cases.fetch_add(local.cases, Ordering::Relaxed);
                shared.evaluations.fetch_add(local.evaluations, Ordering::Relaxed);
                let mut g = shared.inner.lock().unwrap();
                merge(&mut g, local);
            });
        }
    });
    let mut part = shared.inner.into_inner().unwrap();
    part.name = check.part().to_string();
    if let Some((bytes, f)) = found.into_inner().unwrap() {
        // second, domain-aware pass
        let mut written = None;
        if let Some((c2, b2)) = check.minimise(&bytes) {
            let r2 = run_guarded(c2.as_ref(), &b2);
            if let Some(f2) = unknown_failure(ctx, &r2, None) {
                written = Some((write_replay(ctx, c2.as_ref(), &b2, &f2), f2));
            }
        }
        let (path, f) = written.unwrap_or_else(|| (write_replay(ctx, check, &bytes, &f), f));
        part.violation = Some(Violation { sig: f.sig, what: f.what, replay: path });
    }
    part.wall_s = t0.elapsed().as_secs_f64();
    part
}

pub fn merge(into: &mut Part, from: Part) {
    into.cases += from.cases;
    into.evaluations += from.evaluations;
    into.nontrivial_keys.extend(from.nontrivial_keys);
    for (k, v) in from.labels {
        *into.labels.entry(k).or_default() += v;
    }
    for (k, v) in from.excluded {
        *into.excluded.entry(k).or_default() += v;
    }
    for (k, (n, d)) in from.known {
        let e = into.known.entry(k).or_insert((0, d));
        e.0 += n;
    }
    for s in from.samples {
        if into.samples.len() < 5 {
            into.samples.push(s);
        }
    }
    if into.violation.is_none() {
        into.violation = from.violation;
    }
    into.exhaustive |= from.exhaustive;
}

/// Run a fixed list of byte strings (corpus of former failures, enumerated sub-spaces) through a
/// check, in parallel. `exhaustive` marks a completely enumerated finite space.
pub fn run_list(ctx: &Ctx, check: &dyn Check, name: &str, inputs: &[Vec<u8>], exhaustive: bool) -> Part {
    let t0 = Instant::now();
    let workers = ctx.workers.max(1);
    let chunk = (inputs.len() + workers - 1) / workers.max(1);
    let total = Mutex::new(Part { name: name.to_string(), exhaustive, ..Default::default() });
    let stop = AtomicBool::new(false);
    let found: Mutex<Option<(Vec<u8>, Failure)>> = Mutex::new(None);
    std::thread::scope(|scope| {
        for piece in inputs.chunks(chunk.max(1)) {
            let total = &total;
            let stop = &stop;
            let found = &found;
            scope.spawn(move || {
                let mut local = Part { name: name.to_string(), ..Default::default() };
                for bytes in piece {
                    if stop.load(Ordering::Relaxed) {
                        break;
                    }
                    let r = run_guarded(check, bytes);
                    if let Some(f) = account(&mut local, ctx, check, bytes, &r) {
                        stop.store(true, Ordering::Relaxed);
                        let mut g = found.lock().unwrap();
                        let better = match &*g {
                            None => true,
                            Some((b, _)) => bytes.len() < b.len(),
                        };
                        if better {
                            *g = Some((bytes.clone(), f));
                        }
                        break;
                    }
                }
                merge(&mut total.lock().unwrap(), local);
            });
        }
    });
    let mut part = total.into_inner().unwrap();
    part.name = name.to_string();
    part.exhaustive = exhaustive && !stop.load(Ordering::Relaxed);
    if let Some((bytes, f)) = found.into_inner().unwrap() {
        let path = write_replay(ctx, check, &bytes, &f);
        part.violation = Some(Violation { sig: f.sig, what: f.what, replay: path });
    }
    part.wall_s = t0.elapsed().as_secs_f64();
    part
}

/// Replay one file strictly (no library involved). Returns the failure if it still fails.
pub fn replay(ctx: &Ctx, checks: &[&dyn Check], path: &str) -> i32 {
    let text = match std::fs::read_to_string(path) {
        Ok(t) => t,
        Err(e) => {
            eprintln!("cannot read {}: {}", path, e);
            return 2;
        }
    };
    let v: Value = serde_json::from_str(&text).unwrap_or(Value::Null);
    let part = v["part"].as_str().unwrap_or("");
    let bytes = unhex(v["bytes"].as_str().unwrap_or(""));
    for c in checks {
        if c.part() == part {
            let r = run_guarded(*c, &bytes);
            println!("case: {}", serde_json::to_string_pretty(&c.describe(&bytes)).unwrap());
            let mut code = 0;
            for f in &r.failures {
                if let Some(d) = ctx.known.get(&ctx.id, &f.sig) {
                    println!("KNOWN-FINDING: property={} {} [{}]", ctx.id, d, f.sig);
                } else {
                    println!("failure sig={} what={}\n{}", f.sig, f.what, serde_json::to_string_pretty(&f.detail).unwrap());
                    println!("VIOLATION property={} replay={}", ctx.id, path);
                    code = 1;
                }
            }
            if r.failures.is_empty() {
                println!("replay passes: property {} holds on this case", ctx.id);
            }
            return code;
        }
    }
    eprintln!("no part named {:?} in property {}", part, ctx.id);
    2
}

/// Write the evidence file, print KNOWN-FINDING / VIOLATION lines, return the exit code.
pub fn finish(ctx: &Ctx, parts: Vec<Part>, rule: &str, assumptions: &[&str], extra: Value) -> i32 {
    let mut evaluations = 0u64;
    let mut cases = 0u64;
    let mut keys: HashSet<u64> = HashSet::new();
    let mut samples = Vec::new();
    let mut known: BTreeMap<String, (u64, String)> = BTreeMap::new();
    let mut parts_json = Vec::new();
    let mut violations = Vec::new();
    let mut any_exhaustive = false;
    for p in &parts {
        evaluations += p.evaluations;
        cases += p.cases;
        // keys of different parts are different cases
        let salt = fnv(p.name.as_bytes());
        keys.extend(p.nontrivial_keys.iter().map(|k| k ^ salt));
        for s in p.samples.iter().take(2) {
            samples.push(json!({"part": p.name, "case": s}));
        }
        for (k, (n, d)) in &p.known {
            let e = known.entry(k.clone()).or_insert((0, d.clone()));
            e.0 += n;
        }
        any_exhaustive |= p.exhaustive;
        parts_json.push(json!({
            "part": p.name,
            "cases": p.cases,
            "evaluations": p.evaluations,
            "distinct_nontrivial": p.nontrivial_keys.len(),
            "exhaustive": p.exhaustive,
            "labels": p.labels,
            "excluded_by_construction": p.excluded,
            "known_findings_hit": p.known.iter().map(|(k, (n, _))| (k.clone(), *n)).collect::<BTreeMap<_, _>>(),
            "wall_s": (p.wall_s * 100.0).round() / 100.0,
        }));
        if let Some(v) = &p.violation {
            violations.push(v.clone());
        }
    }
    if samples.is_empty() {
        samples.push(json!("no sample recorded"));
    }
    let wall = ctx.started.elapsed().as_secs_f64();
    let mut coverage = json!({
        "evaluations": evaluations,
        "cases": cases,
        "distinct_nontrivial": keys.len(),
        "rule": rule,
        "samples": samples,
        "parts": parts_json,
        "known_findings_hit": known.iter().map(|(k, (n, _))| (k.clone(), *n)).collect::<BTreeMap<_, _>>(),
        "all_parts_exhaustive": parts.iter().all(|p| p.exhaustive),
        "some_part_exhaustive": any_exhaustive,
    });
    if let (Some(c), Some(e)) = (coverage.as_object_mut(), extra.as_object()) {
        for (k, v) in e {
            c.insert(k.clone(), v.clone());
        }
    }
    let evidence = json!({
        "property_id": ctx.id,
        "tier": ctx.tier,
        "seed": ctx.seed,
        "level": "exploration",
        "coverage": coverage,
        "assumptions": assumptions,
        "wall_s": (wall * 100.0).round() / 100.0,
        "violations": violations.len(),
    });
    let dir = format!("{}/evidence", verif_root());
    let _ = std::fs::create_dir_all(&dir);
    let path = format!("{}/{}.json", dir, ctx.id);
    if let Err(e) = std::fs::write(&path, serde_json::to_string_pretty(&evidence).unwrap()) {
        eprintln!("cannot write evidence {}: {}", path, e);
        return 2;
    }
    for (sig, (n, d)) in &known {
        println!("KNOWN-FINDING: property={} {} [sig={} hits={}]", ctx.id, d, sig, n);
    }
    println!(
        "{} tier={} seed={} cases={} evaluations={} distinct_nontrivial={} wall={:.1}s",
        ctx.id,
        ctx.tier,
        ctx.seed,
        cases,
        evaluations,
        keys.len(),
        wall
    );
    if violations.is_empty() {
        0
    } else {
        for v in &violations {
            println!("  failure: {} ({})", v.what, v.sig);
            println!("VIOLATION property={} replay={}", ctx.id, v.replay);
        }
        1
    }
}

/// Smallest byte that `Src::below(n)` maps to `idx` (n <= 256).
pub fn byte_for(idx: usize, n: usize) -> u8 {
    if n <= 1 {
        return 0;
    }
    let b = (idx * 256 + n - 1) / n;
    debug_assert!((b * n) >> 8 == idx);
    b as u8
}

/// Install a panic hook that records the panic location and message for the current thread and
/// stays silent; `catch` returns them.
pub fn install_panic_hook() {
    std::panic::set_hook(Box::new(|info| {
        let loc = info.location().map(|l| l.file().to_string()).unwrap_or_default();
        let msg = info
            .payload()
            .downcast_ref::<String>()
            .cloned()
            .or_else(|| info.payload().downcast_ref::<&str>().map(|s| s.to_string()))
            .unwrap_or_default();
        LAST_PANIC.with(|p| *p.borrow_mut() = Some((loc, msg)));
    }));
}

thread_local! {
    static LAST_PANIC: std::cell::RefCell<Option<(String, String)>> = const { std::cell::RefCell::new(None) };
}

/// Normalised panic signature: source file (repository-relative) | message with numbers replaced.
pub fn panic_sig(file: &str, msg: &str) -> String {
    let file = file.rsplit("/repo/").next().unwrap_or(file);
    let file = file.rsplit("src/").next().unwrap_or(file);
    let mut m = String::new();
    let mut in_num = false;
    for c in msg.chars().take(80) {
        if c.is_ascii_digit() {
            if !in_num {
                m.push('N');
            }
            in_num = true;
        } else {
            in_num = false;
            m.push(if c.is_whitespace() { '_' } else { c });
        }
    }
    format!("panic@{}:{}", file, m)
}

pub fn take_last_panic() -> Option<(String, String)> {
    LAST_PANIC.with(|p| p.borrow_mut().take())
}

pub fn catch<T>(f: impl FnOnce() -> T) -> Result<T, String> {
    LAST_PANIC.with(|p| *p.borrow_mut() = None);
    match std::panic::catch_unwind(std::panic::AssertUnwindSafe(f)) {
        Ok(v) => Ok(v),
        Err(_) => {
            let (file, msg) = LAST_PANIC.with(|p| p.borrow_mut().take()).unwrap_or_default();
            Err(panic_sig(&file, &msg))
        }
    }
}

/// Verdict inside a libFuzzer target: known findings are tolerated (so a campaign does not
/// rediscover one finding forever), any other failure aborts the process, which makes libFuzzer
/// save the input; `fuzz_part` turns it into a replay file.
pub fn fuzz_verdict(id: &str, check: &dyn Check, data: &[u8]) {
    use std::sync::OnceLock;
    static KNOWN: OnceLock<Known> = OnceLock::new();
    static HOOK: OnceLock<()> = OnceLock::new();
    HOOK.get_or_init(install_panic_hook);
    let known = KNOWN.get_or_init(Known::load);
    let r = check.run(data);
    if let Some(f) = r.failures.iter().find(|f| known.get(id, &f.sig).is_none()) {
        eprintln!("FUZZ-FAILURE property={} sig={} what={}", id, f.sig, f.what);
        std::process::abort();
    }
}

/// Coverage-guided campaign (cargo-fuzz / libFuzzer) on the same decoder and oracle as `check`.
/// Crashing inputs are re-executed through the check itself; only a failure the check confirms
/// becomes a violation. Build problems and resource limits are reported as inconclusive notes.
pub fn fuzz_part(ctx: &Ctx, target: &str, check: &dyn Check, runs: u64, max_len: usize) -> Part {
    let t0 = Instant::now();
    let mut part = Part { name: format!("libfuzzer:{}", target), ..Default::default() };
    let root = verif_root();
    let corpus = format!("{}/target/fuzz-corpus/{}-{}", root, target, ctx.seed);
    let artifacts = format!("{}/target/fuzz-artifacts/{}/", root, target);
    let _ = std::fs::remove_dir_all(&corpus);
    let _ = std::fs::remove_dir_all(&artifacts);
    let _ = std::fs::create_dir_all(&corpus);
    let _ = std::fs::create_dir_all(&artifacts);
    // seed corpus: a few deterministic byte strings of full length (libFuzzer ramps length slowly)
    let mut state = fnv(format!("fuzz-{}-{}", target, ctx.seed).as_bytes());
    for k in 0..24 {
        let len = if k < 4 { 16 } else { max_len.min(64 << (k % 5)) };
        let mut v = Vec::with_capacity(len);
        for _ in 0..len {
            state = state.wrapping_mul(6364136223846793005).wrapping_add(1442695040888963407);
            v.push((state >> 33) as u8);
        }
        let _ = std::fs::write(format!("{}/seed-{:02}", corpus, k), v);
    }
    let jobs = ctx.workers.max(1);
    let out = std::process::Command::new("cargo")
        .current_dir(format!("{}/fuzz", root))
        .env("CARGO_NET_OFFLINE", "true")
        .env("VERIF_ROOT", &root)
        .args(["+nightly", "fuzz", "run", "--fuzz-dir", ".", target, &corpus, "--"])
        .arg(format!("-runs={}", runs))
        .arg(format!("-seed={}", ctx.seed.max(1)))
        .arg("-len_control=0")
        .arg(format!("-max_len={}", max_len))
        .arg(format!("-artifact_prefix={}", artifacts))
        .arg(format!("-fork={}", jobs))
        .arg("-ignore_crashes=0")
        .arg("-print_final_stats=1")
        .output();
    let out = match out {
        Ok(o) => o,
        Err(e) => {
            part.labels.insert(format!("inconclusive: cannot start cargo fuzz: {}", e), 1);
            return part;
        }
    };
    let log = format!("{}{}", String::from_utf8_lossy(&out.stdout), String::from_utf8_lossy(&out.stderr));
    let execs: u64 = log
        .lines()
        .filter_map(|l| l.split("stat::number_of_executed_units:").nth(1).and_then(|v| v.trim().parse::<u64>().ok()))
        .sum::<u64>()
        .max(log.lines().filter_map(|l| l.strip_prefix("#").and_then(|r| r.split(':').next()).and_then(|n| n.trim().parse::<u64>().ok())).max().unwrap_or(0));
    part.cases = execs;
    part.evaluations = execs;
    let corpus_files = std::fs::read_dir(&corpus).map(|d| d.count()).unwrap_or(0);
    part.labels.insert("corpus-entries-after-campaign".into(), corpus_files as u64);
    // count distinct non-trivial corpus entries with the check itself
    if let Ok(rd) = std::fs::read_dir(&corpus) {
        for e in rd.flatten().take(5000) {
            if let Ok(bytes) = std::fs::read(e.path()) {
                let r = run_guarded(check, &bytes);
                if r.nontrivial {
                    part.nontrivial_keys.insert(r.key);
                }
                if part.samples.len() < 2 && r.nontrivial {
                    part.samples.push(check.describe(&bytes));
                }
            }
        }
    }
    // crashes: confirm through the check
    if let Ok(rd) = std::fs::read_dir(&artifacts) {
        for e in rd.flatten() {
            let Ok(bytes) = std::fs::read(e.path()) else { continue };
            let r = run_guarded(check, &bytes);
            if let Some(f) = unknown_failure(ctx, &r, None) {
                let path = write_replay(ctx, check, &bytes, &f);
                part.violation = Some(Violation { sig: f.sig, what: f.what, replay: path });
                break;
            } else {
                part.labels.insert("artifact-not-confirmed-by-check(resource limit?)".into(), 1);
            }
        }
    }
    if !out.status.success() && part.violation.is_none() && execs == 0 {
        part.labels.insert("inconclusive: fuzz build or run failed".into(), 1);
        eprintln!("fuzz campaign {} did not run: {}", target, log.lines().rev().take(12).collect::<Vec<_>>().join(" | "));
    }
    part.wall_s = t0.elapsed().as_secs_f64();
    part
}

//! Engine B: the real `lsp4spl` binary (release, built with `--features verif`) driven over stdio.
//! A session is a list of writes (byte chunks with optional sleeps in front), optionally followed
//! by closing stdin. stdout and stderr are drained concurrently. A watchdog kills the child after
//! a generous bound; a watchdog hit is never a violation by itself (exit code 2, inconclusive),
//! except where a property is about termination (C18), which retries before judging.

use serde_json::{json, Value};
use std::io::{Read, Write};
use std::process::{Command, Stdio};
use std::time::{Duration, Instant};

#[derive(Clone, Debug)]
pub struct Chunk {
    pub bytes: Vec<u8>,
    pub sleep_before_ms: u64,
}

#[derive(Clone, Debug)]
pub struct Frame {
    pub body: Vec<u8>,
    pub json: Option<Value>,
}

#[derive(Debug)]
pub struct Outcome {
    pub stdout: Vec<u8>,
    pub frames: Vec<Frame>,
    /// description of the first framing problem in the server's output, if any
    pub framing_problem: Option<String>,
    pub exit_code: Option<i32>,
    pub timed_out: bool,
    pub stderr: String,
    pub elapsed_ms: u128,
    /// the child was gone before all input was written
    pub write_failed: bool,
}

pub fn server_bin() -> String {
    std::env::var("VERIF_SERVER_BIN").unwrap_or_else(|_| format!("{}/target/server/release/lsp4spl", crate::driver::verif_root()))
}

pub fn frame(v: &Value) -> Vec<u8> {
    let body = serde_json::to_vec(v).unwrap();
    let mut out = format!("Content-Length: {}\r\n\r\n", body.len()).into_bytes();
    out.extend(body);
    out
}

/// a frame with an additional Content-Type header, before or after Content-Length (LSP allows it)
pub fn frame_with_content_type(v: &Value, before: bool) -> Vec<u8> {
    let body = serde_json::to_vec(v).unwrap();
    let ct = "Content-Type: application/vscode-jsonrpc; charset=utf-8\r\n";
    let mut out = if before {
        format!("{}Content-Length: {}\r\n\r\n", ct, body.len()).into_bytes()
    } else {
        format!("Content-Length: {}\r\n{}\r\n", body.len(), ct).into_bytes()
    };
    out.extend(body);
    out
}

pub fn request(id: i64, method: &str, params: Value) -> Value {
    json!({ "jsonrpc": "2.0", "id": id, "method": method, "params": params })
}

pub fn notification(method: &str, params: Value) -> Value {
    json!({ "jsonrpc": "2.0", "method": method, "params": params })
}

/// document versions increase with every change, not always by one (LSP only demands "increase")
pub fn next_version(v: &mut i64) -> i64 {
    *v += if *v % 3 == 0 { 3 } else { 1 };
    *v
}

pub fn initialize_params(diagnostics: bool) -> Value {
    if diagnostics {
        json!({ "capabilities": { "textDocument": { "publishDiagnostics": {} } } })
    } else {
        json!({ "capabilities": {} })
    }
}

/// the same announcement in the other shapes a client may send: support is announced exactly
/// when `capabilities.textDocument.publishDiagnostics` is present, whatever else is announced
pub fn initialize_params_variant(diagnostics: bool, variant: usize) -> Value {
    match (diagnostics, variant % 3) {
        (true, 0) => initialize_params(true),
        (true, 1) => json!({ "capabilities": { "workspace": {}, "textDocument": { "hover": { "contentFormat": ["markdown"] }, "publishDiagnostics": { "relatedInformation": true } } } }),
        (true, _) => json!({ "processId": null, "rootUri": null, "capabilities": { "textDocument": { "publishDiagnostics": { "versionSupport": false }, "completion": {} } } }),
        (false, 0) => initialize_params(false),
        (false, 1) => json!({ "capabilities": { "textDocument": { "hover": { "contentFormat": ["markdown"] }, "completion": {} } } }),
        (false, _) => json!({ "processId": null, "rootUri": null, "capabilities": { "workspace": {}, "textDocument": {} } }),
    }
}

/// strict parse of the server's output into frames
pub fn parse_frames(out: &[u8]) -> (Vec<Frame>, Option<String>) {
    let mut frames = Vec::new();
    let mut i = 0;
    while i < out.len() {
        let rest = &out[i..];
        let Some(hend) = rest.windows(4).position(|w| w == b"\r\n\r\n") else {
            return (frames, Some(format!("output ends inside a header at byte {}: {:?}", i, String::from_utf8_lossy(&rest[..rest.len().min(60)]))));
        };
        let header = String::from_utf8_lossy(&rest[..hend]).to_string();
        let mut len = None;
        for line in header.split("\r\n") {
            if let Some(v) = line.strip_prefix("Content-Length:") {
                len = v.trim().parse::<usize>().ok();
            }
        }
        let Some(len) = len else {
            return (frames, Some(format!("frame without a valid Content-Length header: {:?}", header)));
        };
        let start = i + hend + 4;
        if start + len > out.len() {
            return (frames, Some(format!("Content-Length {} but only {} bytes follow", len, out.len() - start)));
        }
        let body = out[start..start + len].to_vec();
        let parsed: Option<Value> = std::str::from_utf8(&body).ok().and_then(|s| serde_json::from_str(s).ok());
        if parsed.is_none() {
            return (frames, Some(format!("frame body of declared length {} is not one valid UTF-8 JSON value (Content-Length does not match the body?): {:?}", len, String::from_utf8_lossy(&body[..body.len().min(80)]))));
        }
        frames.push(Frame { body, json: parsed });
        i = start + len;
    }
    (frames, None)
}

pub struct RunOpts {
    pub close_stdin: bool,
    pub timeout_ms: u64,
    /// start reading the server's output only after this delay (builds back-pressure)
    pub read_delay_ms: u64,
}

impl Default for RunOpts {
    fn default() -> Self {
        Self { close_stdin: true, timeout_ms: 20_000, read_delay_ms: 0 }
    }
}

pub fn run(chunks: &[Chunk], opts: &RunOpts) -> Outcome {
    let t0 = Instant::now();
    let mut child = Command::new(server_bin())
        .stdin(Stdio::piped())
        .stdout(Stdio::piped())
        .stderr(Stdio::piped())
        .env("NO_COLOR", "1")
        .env("RUST_BACKTRACE", "0")
        .spawn()
        .expect("cannot start the language server binary (run ./check.sh --setup)");
    let mut stdin = child.stdin.take().unwrap();
    let mut stdout = child.stdout.take().unwrap();
    let mut stderr = child.stderr.take().unwrap();
    let delay = opts.read_delay_ms;
    let out_thread = std::thread::spawn(move || {
        if delay > 0 {
            std::thread::sleep(Duration::from_millis(delay));
        }
        let mut buf = Vec::new();
        let _ = stdout.read_to_end(&mut buf);
        buf
    });
    let err_thread = std::thread::spawn(move || {
        let mut buf = Vec::new();
        let _ = stderr.read_to_end(&mut buf);
        buf
    });
    let chunks_owned: Vec<Chunk> = chunks.to_vec();
    let close = opts.close_stdin;
    let writer = std::thread::spawn(move || {
        let mut failed = false;
        for c in &chunks_owned {
            if c.sleep_before_ms > 0 {
                std::thread::sleep(Duration::from_millis(c.sleep_before_ms));
            }
            if stdin.write_all(&c.bytes).is_err() || stdin.flush().is_err() {
                failed = true;
                break;
            }
        }
        if close || failed {
            drop(stdin);
            (failed, None)
        } else {
            (failed, Some(stdin))
        }
    });
    // wait for the exit with a watchdog
    let deadline = Instant::now() + Duration::from_millis(opts.timeout_ms);
    let mut exit_code = None;
    let mut timed_out = false;
    loop {
        match child.try_wait() {
            Ok(Some(st)) => {
                exit_code = st.code();
                break;
            }
            Ok(None) => {
                if Instant::now() >= deadline {
                    timed_out = true;
                    let _ = child.kill();
                    let _ = child.wait();
                    break;
                }
                std::thread::sleep(Duration::from_millis(1));
            }
            Err(_) => break,
        }
    }
    let (write_failed, keep) = writer.join().unwrap_or((true, None));
    drop(keep);
    let stdout = out_thread.join().unwrap_or_default();
    let stderr = String::from_utf8_lossy(&err_thread.join().unwrap_or_default()).to_string();
    let (frames, framing_problem) = parse_frames(&stdout);
    Outcome { stdout, frames, framing_problem, exit_code, timed_out, stderr, elapsed_ms: t0.elapsed().as_millis(), write_failed }
}

/// one write per message
pub fn chunks_of(messages: &[Value]) -> Vec<Chunk> {
    messages.iter().map(|m| Chunk { bytes: frame(m), sleep_before_ms: 0 }).collect()
}

/// all messages in one write
pub fn one_chunk(messages: &[Value]) -> Vec<Chunk> {
    vec![Chunk { bytes: messages.iter().flat_map(|m| frame(m)).collect(), sleep_before_ms: 0 }]
}

impl Outcome {
    /// responses (frames with an id and no method) in output order
    pub fn responses(&self) -> Vec<&Value> {
        self.frames.iter().filter_map(|f| f.json.as_ref()).filter(|j| j.get("id").is_some() && j.get("method").is_none()).collect()
    }
    pub fn notifications(&self, method: &str) -> Vec<&Value> {
        self.frames.iter().filter_map(|f| f.json.as_ref()).filter(|j| j.get("method").and_then(|m| m.as_str()) == Some(method)).collect()
    }
    pub fn panicked(&self) -> bool {
        self.stderr.contains("panicked at") || self.stderr.contains("The application panicked")
    }
}

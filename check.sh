#!/bin/bash
# Wrapper around the `check` binary.
#   ./check.sh --setup                      build everything (offline)
#   ./check.sh <ID> [quick|thorough]        rebuild from /repo's working tree, run one property
#   ./check.sh <ID> --replay <file>         re-execute one saved case
# Exit: 0 held / 1 violation (VIOLATION line) / 2 inconclusive (build failure, watchdog, harness error)
set -u
ROOT="$(cd "$(dirname "$0")" && pwd)"
export VERIF_ROOT="$ROOT"
export CARGO_NET_OFFLINE=true
REPO=/repo
HARNESS="$ROOT/harness"
SRC="$HARNESS/splverif/src"
TARGET="$ROOT/target"

sync_links() {
    # the binary crate's modules are compiled into the harness as symlinks; the list is regenerated
    # from lsp4spl/src/main.rs so that a change adding a module still builds
    local mods want ok=1
    mods=$(grep -E '^\s*(pub\s+)?mod\s+[a-z_]+;' "$REPO/lsp4spl/src/main.rs" | sed -E 's/^\s*(pub\s+)?mod\s+([a-z_]+);.*/\2/' | grep -v '^server$')
    want=$(for m in $mods; do echo "mod $m;"; done)
    [ "$want" = "$(cat "$SRC/repo_mods.rs" 2>/dev/null)" ] || ok=0
    for m in $mods; do
        [ -f "$REPO/lsp4spl/src/$m.rs" ] && [ ! -L "$SRC/$m.rs" ] && ok=0
        [ -d "$REPO/lsp4spl/src/$m" ] && [ ! -L "$SRC/$m" ] && ok=0
    done
    [ $ok -eq 1 ] && return 0
    for f in "$SRC"/*; do
        [ -L "$f" ] && rm -f "$f"
    done
    for m in $mods; do
        [ -f "$REPO/lsp4spl/src/$m.rs" ] && ln -s "$REPO/lsp4spl/src/$m.rs" "$SRC/$m.rs"
        [ -d "$REPO/lsp4spl/src/$m" ] && ln -s "$REPO/lsp4spl/src/$m" "$SRC/$m"
    done
    echo "$want" > "$SRC/repo_mods.rs"
}

build_harness() {
    sync_links
    cp "$REPO/Cargo.lock" "$TARGET/.repo.lock" 2>/dev/null
    (cd "$HARNESS" && cargo build --release -q 2>"$TARGET/harness-build.log")
    local rc=$?
    if [ $rc -ne 0 ]; then
        echo "harness build failed (inconclusive); see $TARGET/harness-build.log" >&2
        tail -30 "$TARGET/harness-build.log" >&2
        return 2
    fi
    return 0
}

build_server() {
    # the real binary, release profile as `cargo install` builds it, with the guarded hook
    (cd "$REPO" && cargo build --release -q -p lsp4spl --features verif --target-dir "$TARGET/server" 2>"$TARGET/server-build.log")
    local rc=$?
    if [ $rc -ne 0 ]; then
        echo "server build failed (inconclusive); see $TARGET/server-build.log" >&2
        tail -30 "$TARGET/server-build.log" >&2
        return 2
    fi
    return 0
}

needs_server() {
    case "$1" in
        C02|C08|C09|C11|C12|C13|C14|C15|C16|C17|C18|C19|C20) return 0 ;;
        *) return 1 ;;
    esac
}

mkdir -p "$TARGET" "$ROOT/evidence" "$ROOT/replays"

if [ "${1:-}" = "--setup" ]; then
    build_harness || exit 2
    if grep -q '^verif' "$REPO/lsp4spl/Cargo.toml" 2>/dev/null; then
        build_server || exit 2
    fi
    echo "setup ok"
    exit 0
fi

ID="${1:-}"
if [ -z "$ID" ]; then
    echo "usage: $0 --setup | <ID> [quick|thorough] | <ID> --replay <file>" >&2
    exit 2
fi
shift
build_harness || exit 2
if needs_server "$ID" && grep -q '^verif' "$REPO/lsp4spl/Cargo.toml" 2>/dev/null; then
    build_server || exit 2
fi
export VERIF_SERVER_BIN="$TARGET/server/release/lsp4spl"
if [ "${1:-}" = "--replay" ]; then
    exec "$TARGET/harness/release/check" "$ID" --replay "${2:-}"
fi
TIER="${1:-${VERIF_TIER:-quick}}"
exec "$TARGET/harness/release/check" "$ID" --tier "$TIER"

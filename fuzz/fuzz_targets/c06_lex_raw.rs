//! C06, coverage-guided: raw bytes as UTF-8 text, tiling + conformance oracle inside the target.
#![no_main]
use libfuzzer_sys::fuzz_target;
use splverif::driver::fuzz_verdict;
use splverif::props::c06::RawText;

fuzz_target!(|data: &[u8]| {
    fuzz_verdict("C06", &RawText, data);
});

//! C01, coverage-guided: the structured decoder of the edit-history check (with pinned triage).
#![no_main]
use libfuzzer_sys::fuzz_target;
use splverif::driver::fuzz_verdict;
use splverif::props::c01::Histories;

fuzz_target!(|data: &[u8]| {
    fuzz_verdict("C01", &Histories, data);
});

//! C07, coverage-guided: the structured decoder of the chained-changes check.
#![no_main]
use libfuzzer_sys::fuzz_target;
use splverif::driver::fuzz_verdict;
use splverif::props::c07::Chained;

fuzz_target!(|data: &[u8]| {
    fuzz_verdict("C07", &Chained, data);
});

//! C02, coverage-guided: documents + histories + all handlers in process, crash oracle.
#![no_main]
use libfuzzer_sys::fuzz_target;
use splverif::driver::fuzz_verdict;
use splverif::props::c02::InProcess;

fuzz_target!(|data: &[u8]| {
    fuzz_verdict("C02", &InProcess, data);
});

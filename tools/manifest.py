#!/usr/bin/env python3
"""Regenerate /verif/MANIFEST.json from the table below (keeps it schema-valid at all times)."""
import json, os, subprocess, sys

ROOT = os.path.dirname(os.path.dirname(os.path.abspath(__file__)))
props = [json.loads(l) for l in open(os.path.join(ROOT, "properties.jsonl"))]

# id -> (technique, level text, level note, design ref, engine)
CLAIMED = {
    "C06": (
        "property-based testing (proptest byte-string decoders) + bounded-exhaustive enumeration; oracles: tiling invariants and differential against an independent reference lexer",
        "Exploration: every generated text is tokenised by the real lexer and checked against tiling invariants; lexically valid texts are compared token by token with a hand-written reference lexer. All strings up to length 4 (5 thorough) over a 16-symbol alphabet are enumerated completely. Held = no counterexample in the explored space, not a proof.",
        "Trusted: the reference lexer (120 lines, unit-tested) and the statement of the SPL lexical grammar in the property; Unicode White_Space as the notion of whitespace for gaps.",
        "DESIGN.md section 6 C06",
        "A",
    ),
    "C07": (
        "bounded-exhaustive enumeration of small (text, change) pairs + property-based testing of chained changes on generated documents; differential oracle lexer::update == lexer::lex plus change-window invariants",
        "Exploration with a completely enumerated sub-space: all texts up to 3 (4) symbols over an alphabet that covers every look-ahead class x all ranges x all replacements up to 1 (2) symbols, plus hundreds of thousands of random chained changes on generated documents. Each step compares the incremental token stream with a fresh tokenisation and checks the change window.",
        "Trusted: lexer::lex as the batch reference (it is itself checked against an independent lexer by C06).",
        "DESIGN.md section 6 C07",
        "A",
    ),
}

CLAIMED["C03"] = (
    "property-based testing: generated well-typed programs (oracle: no diagnostic) and single-fault injection with 27 rule-specific injectors plus curated missing-token faults (oracle: exactly the predicted message on the culprit node known by construction); 2-12 independent statement-level violations injected one after the other (oracle: exactly the predicted messages after every injection)",
    "Exploration: tens of thousands of generated valid programs must be diagnostic-free; for each of the 27 build/semantic message kinds an injector adds one violating construct at a random place and the check demands exactly one diagnostic with the rule's message on the culprit; missing-token faults demand the matching message at the end of the preceding token and containment in the declaration. Every diagnostic range is converted as the server publishes it and mapped back with an independent LSP position model.",
    "Trusted: the program generator's notion of well-typed SPL (DESIGN section 2 G1), the injectors' single-message predictions (checked against SPL's rules and the checker's do-not-report-twice policy), the LSP position model.",
    "DESIGN.md section 6 C03",
    "A",
)
CLAIMED["C04"] = (
    "property-based testing with a generating derivation as oracle: programs are generated as derivation trees, rendered under two random layouts (whitespace, CRLF, comments in any gap) and the parser's tree (shape, operators, literal values, every node's absolute token range, collected documentation) must equal the derivation",
    "Exploration: the generator's normalised derivation tree IS the tree the SPL grammar mandates for the rendered text (parentheses are inserted exactly where precedence/associativity demand them), so equality with the parser's result decides the property per case; 30k (500k) programs x 2 layouts.",
    "Trusted: the normalisation rules (precedence *,/ > +,- > comparison, left associativity, single non-associative comparison, else binds to nearest if) and the walker that accumulates Reference offsets.",
    "DESIGN.md section 6 C04",
    "A",
)

CLAIMED["C01"] = (
    "property-based testing of edit histories with a differential oracle (incremental update vs fresh analysis of the same text, compared after every step on text, tokens, tree with attached diagnostics, symbol table, errors()); three parts: text-level histories over valid/damaged/soup/Unicode documents and validity-preserving model mutations delivered as minimal text differences, and the same histories through the document broker (published diagnostics and the served analysis vs a fresh didOpen); failures are triaged against a pinned copy of the repaired baseline",
    "Exploration: 40k (700k) histories / 120k (2M) update steps per run. The oracle is a different code path of the same build (no old nodes, no token change). A divergence is a violation unless the pinned copy of the repaired baseline (/verif/pinned) fails on exactly the same (fresh previous state, change batch) input, which identifies the recorded finding C01-tail; the validity-preserving stratum is clean on the baseline and reports its suppressed count separately.",
    "Trusted: AnalyzedSource::new as reference; derived PartialEq on the public AST/token/table types; the pinned copy only ever explains failures that the unchanged tree shows on the identical input.",
    "DESIGN.md sections 5.3 and 6 C01",
    "A",
)
CLAIMED["C05"] = (
    "property-based testing + exhaustive enumeration of all single-token damages of sampled programs; metamorphic oracle: the undamaged declarations' sub-trees, symbol-table entries and navigation answers before vs after the damage, syntax diagnostics confined to the damaged declaration's extent",
    "Exploration: 60k (1M) sampled (program, token, operator, replacement) cases plus all token x {delete, insert-before, replace} x 40-lexeme damages of 6 (150) seed-derived programs.",
    "Trusted: the program generator; the extent computation of the damaged declaration; comments in front of the damaged token may attach to the following declaration (documented normalisation).",
    "DESIGN.md section 6 C05",
    "A",
)

CLAIMED["C08"] = (
    "model-based property testing: generated didOpen/didChange histories (multi-byte, astral, CR/LF/CRLF texts; valid and overshooting positions; batches; full replacements) applied to the server's broker and to an independent LSP client text model, texts compared after every notification; exhaustive enumeration of all position pairs of all small texts; identifier-range round trip through the client model",
    "Exploration with a completely enumerated sub-space (all texts up to 3 (4) symbols over {a, astral, LF, CR} x all ordered position pairs incl. overshoot x 3 replacements) plus 40k (600k) random histories and 20k (300k) round-trip documents; in process against the broker task and, for sessions, against the real binary through the guarded $/verif/text request.",
    "Trusted: the client text model (written from LSP 3.17: UTF-16 columns, three line terminators, clamping), unit-tested; positions LSP leaves undefined are not generated.",
    "DESIGN.md section 6 C08",
    "A+B",
)

CLAIMED["C09"] = (
    "property-based testing with a round-trip oracle: generated programs x layouts x formatting options; the formatting response is validated (null or one whole-document edit under an independent client model), applied, and the result re-lexed with an independent lexer (token kinds and literal values) and re-analysed (diagnostics by message and code-token ordinal)",
    "Exploration: 20k (300k) (program, layout, options) cases through the real handler and broker.",
    "Trusted: reference lexer, client text model, generator; comments restricted to leading positions as the property's quantifier states.",
    "DESIGN.md section 6 C09",
    "A+B",
)
CLAIMED["C10"] = (
    "property-based testing + enumeration of every token gap of sampled programs: comments with distinct texts are placed by construction, the formatted result must contain each exactly once and in order; failures are keyed by the syntactic site of the gap, sites where the unchanged tree always loses the comment are recorded findings",
    "Exploration: every gap of 40 (600) programs plus 30k (400k) random placements of 1-5 comments; 22 gap sites are recorded findings (KNOWN-FINDING lines), any other site, a duplication, an invented comment or a reordering is a violation; a loss at a recorded site counts as that finding only if the comments of the formatted document equal those the pinned baseline formatter produces (DESIGN 5.4).",
    "Trusted: reference lexer's notion of a comment; site naming of the renderer (each site was all-kept or all-lost on the unchanged tree over 58k placements).",
    "DESIGN.md sections 5.2 and 6 C10",
    "A",
)
CLAIMED["C11"] = (
    "property-based testing with metamorphic oracles: format(format(x)) = null, format(layout1(tokens)) = format(layout2(tokens)), outputs under two option sets differ only in the indentation unit, every line indented by a whole number of units, brace-stack nesting sanity, no edit when nothing changes",
    "Exploration: 20k (300k) cases x 6 formatting requests each in process; 600 (12k) sessions against the real binary with six formatting requests on one document under alternating option sets and across a full-text change, each answered like the same request on a fresh server.",
    "Trusted: generator and re-layout (same comments in the same gaps, different whitespace).",
    "DESIGN.md section 6 C11",
    "A+B",
)
CLAIMED["C15"] = (
    "property-based testing: semantic token streams of arbitrary documents are decoded against the announced legend and matched against an independent lexer (well-formedness); for generated well-typed programs every identifier's kind and declaration modifier is compared with the binding known by construction",
    "Exploration: 20k (300k) arbitrary documents + 20k (300k) well-typed programs. Occurrences whose global-scope name is also a local of the enclosing procedure form the recorded class `shadowed-global-occurrence|want|got` (only with the token list of the pinned baseline, DESIGN 5.4); everything else must be exact. 1.2k (30k) sessions against the real binary with clients announcing no / all / a subset of token types: the stream is decoded against the legend of the server's own initialize response.",
    "Trusted: reference lexer, LSP position model, binding model of the generator.",
    "DESIGN.md section 6 C15",
    "A+B",
)
CLAIMED["C17"] = (
    "property-based testing: folding ranges of generated programs in random layouts vs procedure extents known by construction (line of `proc` .. line of last token under the client's line model); well-formedness on arbitrary documents with LF/CRLF/CR line ends",
    "Exploration: 30k (500k) programs + 15k (250k) arbitrary documents.",
    "Trusted: generator, client line model.",
    "DESIGN.md section 6 C17",
    "A+B",
)

CLAIMED["C12"] = (
    "property-based testing with a binding model known by construction: generated well-typed programs; for sampled identifier occurrences and cursor columns the four go-to requests are compared with the declaring name token of the bound entity; non-identifier positions must yield no location and no error",
    "Exploration: 6k (120k) programs x up to 14 occurrences x 4 requests (about 400k (8M) requests) plus 3k (60k) programs with non-identifier positions. Occurrences whose spelling is both a local of the enclosing procedure and a global entity are the recorded class name-denotes-global-and-local (12 listed manifestations by request, occurrence class, wanted and returned target; only with the answer of the pinned baseline, DESIGN 5.2/5.4); all others must be exact. End-to-end part: the real binary's answers equal the handler's.",
    "Trusted: generator's scoping model (locals before globals, parameter types in global scope, name equivalence of array types through aliases), client position model.",
    "DESIGN.md section 6 C12",
    "A+B",
)
CLAIMED["C13"] = (
    "property-based testing with occurrence sets known by construction (two-directional set equality) and a metamorphic rename round trip (apply edits with the client model, same diagnostics, rename back restores the text); prepareRename/rename agreement",
    "Exploration: 8k (150k) programs x up to 10 occurrences x (references, prepareRename, rename, re-analysis, rename back) plus non-identifier positions; ambiguous names are a recorded class with 10 listed manifestations, accepted only with the pinned baseline's ranges (DESIGN 5.4); end-to-end part against the real binary.",
    "Trusted: generator's binding model; client edit model. Renaming `main` and predefined entities is outside the diagnostics-preservation claim (documented).",
    "DESIGN.md section 6 C13",
    "A+B",
)
CLAIMED["C14"] = (
    "property-based testing: hover text and range vs the signature rendered from the generator's model (resolved types, reference markers, documentation lines in order); signature help at every token boundary inside argument lists vs declared signature, parameter entries and comma count",
    "Exploration: 8k (150k) programs for hover (up to 14 occurrences each) and 8k (150k) for signature help (up to 8 calls, all token boundaries plus random offsets): about 600k (10M) requests; ambiguous names: 2 listed manifestations, accepted only with the pinned baseline's hover signature; end-to-end part against the real binary.",
    "Trusted: generator's model and its rendering of signatures (the server's Display implementations are not used by the oracle).",
    "DESIGN.md section 6 C14",
    "A+B",
)
CLAIMED["C16"] = (
    "property-based testing over cursor positions classified by construction (token sites): completion responses compared as sorted label lists per item kind with the scope model (parameters+locals, declared+predefined procedures, declared types+int, declaration starters only at top level, no foreign locals)",
    "Exploration: 40k (600k) (program, position) cases over eight position classes, each with and without whitespace in front of the cursor. A metamorphic part compares completion after every notification of an edit history with completion in a freshly opened document. Positions directly behind a token (nothing typed) are the recorded tight findings (8 signatures, accepted only with the pinned baseline's variable / function / type labels); positions behind `=`/`of` in type expressions are not in the property's quantifier and not generated.",
    "Trusted: generator's scope model; classification of gaps by token site.",
    "DESIGN.md section 6 C16",
    "A+B",
)

CLAIMED["C02"] = (
    "property-based testing / fuzzing with a crash oracle plus response accounting: generated documents of all strata with edit histories; in process all 13 handlers, the broker and the analysis run under catch_unwind with a panic-site signature; against the real binary generated sessions must get one result response per request, strict frames, exit status 0",
    "Exploration: 12k (250k) in-process cases (about 650k (13M) handler calls) and 1.5k (40k) sessions of 20-60 messages against the release binary (batched and range-less changes, Content-Type headers, documents of 66-90 KiB); a case that does not terminate within the in-process watchdog is a violation. Held = no panic, no handler error, no unanswered request in the explored space.",
    "Trusted: the session driver's strict frame parser; the nesting bound (stack exhaustion beyond it is outside the property); well-formed params and integer ids.",
    "DESIGN.md section 6 C02",
    "A+B",
)
CLAIMED["C18"] = (
    "model-based testing against the real binary: all sessions up to length 3 (4) over the 9-symbol message alphabet exhaustively plus random longer sessions (long phases, ids from 0 / negative / near i32::MAX, Content-Type headers, stdin kept open after exit), compared with a lifecycle state machine (responses by id, error codes, exit status); fault injection: end of input after random byte prefixes with a watchdog",
    "Exploration with a completely enumerated sub-space (819 (7380) short sessions) plus 2.5k (50k) random sessions and 6k (150k) end-of-input prefixes. Termination is judged against a 20 s watchdog after three attempts.",
    "Trusted: the lifecycle model transcribed from the property statement (the window between initialize and initialized accepts both rejection codes); strict frame parser.",
    "DESIGN.md section 6 C18",
    "B",
)
CLAIMED["C19"] = (
    "metamorphic testing against the real binary: the same session byte stream is written in one piece and under a segmentation (every two-way split position of sampled sessions exhaustively; one byte per write; several messages per write; random cuts with sleeps); responses, per-URI diagnostics and exit status must be equal; emitted frames are parsed strictly",
    "Exploration: all two-way splits of 4 (60) sessions (about 5k (150k) split positions) plus 1.2k (30k) random segmentations; each case is two runs of the server.",
    "Trusted: pipes deliver writes as segments (the kernel may merge them; sleeps and byte-wise writes make merges unlikely but not impossible); completion item order is canonicalised.",
    "DESIGN.md section 6 C19",
    "B",
)
CLAIMED["C20"] = (
    "model-based testing under load against the real binary: pipelined bursts of 100-800 messages over 2-5 (one burst in eight: 17-32) URIs (incl. URIs differing only in scheme/authority) with back-pressure, checked against a per-URI client text model through the guarded $/verif/text request and hover, response order, final diagnostics (vs an unloaded in-process replay), capability gating (capability announced / withheld in three shapes each), closed documents",
    "Exploration: 600 (12k) bursts x 2 schedules, half of them with floods of 40-300 consecutive changes. Scheduler interleavings are sampled, not controlled (see DESIGN section 10).",
    "Trusted: client text model; the in-process replay as reference for the final diagnostics (C01 owns incremental = fresh).",
    "DESIGN.md section 6 C20",
    "B",
)

NOT_YET = "check not built yet (implementation in progress, see DESIGN.md section 8 build order)"
NOT_APPLICABLE = {}


def main():
    hooks_commits = []
    try:
        out = subprocess.run(["git", "-C", "/repo", "log", "--format=%h %s"], capture_output=True, text=True).stdout
        hooks_commits = [l.split()[0] for l in out.splitlines() if l.split(" ", 1)[1].startswith("verif hook")]
    except Exception:
        pass
    checks = []
    na = []
    for p in props:
        pid = p["id"]
        if pid in CLAIMED:
            tech, text, note, ref, engine = CLAIMED[pid]
            checks.append(
                {
                    "property_id": pid,
                    "quick_cmd": f"./check.sh {pid} quick",
                    "thorough_cmd": f"./check.sh {pid} thorough",
                    "evidence_file": f"/verif/evidence/{pid}.json",
                    "replay_cmd_template": f"./check.sh {pid} --replay {{path}}",
                    "engine": engine,
                    "level_claimed": {"category": "exploration", "text": text, "design_ref": ref},
                    "level_note": note,
                    "technique": tech,
                }
            )
        else:
            na.append({"property_id": pid, "reason": NOT_APPLICABLE.get(pid, NOT_YET)})
    m = {
        "version": 1,
        "setup_cmd": "./check.sh --setup",
        "hooks": {
            "guard": "cargo feature `verif` of crate lsp4spl",
            "enable": "check.sh builds `cargo build --release -p lsp4spl --features verif --target-dir /verif/target/server` from /repo's working tree; the in-process harness compiles the same sources with its own feature `verif`",
            "baseline_off_cmd": "cd /repo && cargo test --workspace --no-fail-fast --offline",
            "source_commits": hooks_commits,
            "add_only": True,
        },
        "engines": [
            {
                "name": "A",
                "path": "/verif/harness",
                "serves_properties": [c["property_id"] for c in checks if c["engine"] in ("A", "A+B")],
                "kind_free_text": "in-process: the harness links spl_frontend from /repo and compiles the source files of the binary crate lsp4spl as its own modules; proptest TestRunner over byte strings with structure-aware decoders, 16 workers, fixed case counts, seeded by VERIF_SEED",
            },
            {
                "name": "B",
                "path": "/verif/harness",
                "serves_properties": [c["property_id"] for c in checks if c["engine"] in ("B", "A+B")],
                "kind_free_text": "the real release binary (built with --features verif) driven over stdio by generated sessions under controlled write segmentation; watchdog hits are exit 2, never violations",
            },
        ],
        "checks": checks,
        "notes": "Every check: exit 0 held (KNOWN-FINDING lines allowed), exit 1 with `VIOLATION property=<id> replay=<path>`, exit 2 inconclusive (build failure / watchdog / harness error). known_findings.txt lists recorded findings and repaired defects.",
        "not_applicable": na,
    }
    json.dump(m, open(os.path.join(ROOT, "MANIFEST.json"), "w"), indent=1)
    print("claimed:", [c["property_id"] for c in checks])


if __name__ == "__main__":
    main()

#!/bin/bash
# Run every thorough check once on the unchanged tree (long). Usage: tools/thorough_all.sh [ids...]
cd "$(dirname "$0")/.."
IDS=${@:-$(python3 -c "import json;print(' '.join(c['property_id'] for c in json.load(open('MANIFEST.json'))['checks']))")}
./check.sh --setup || exit 2
for id in $IDS; do
    t0=$(date +%s)
    out=$(./check.sh $id thorough 2>&1); rc=$?
    t1=$(date +%s)
    echo "$id rc=$rc $((t1-t0))s :: $(echo "$out" | grep -E 'tier=|VIOLATION|failure' | tail -3 | tr '\n' ' ' | cut -c1-300)"
done

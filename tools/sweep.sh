#!/bin/bash
# Stability sweep: every quick check under several seeds on the unchanged tree; any VIOLATION or
# non-zero exit is printed. Usage: tools/sweep.sh "2 3 4 5 6" [ids...]
cd "$(dirname "$0")/.."
SEEDS=${1:-"2 3 4 5 6"}; shift
IDS=${@:-$(python3 -c "import json;print(' '.join(c['property_id'] for c in json.load(open('MANIFEST.json'))['checks']))")}
./check.sh --setup || exit 2
for s in $SEEDS; do
  for id in $IDS; do
    out=$(VERIF_SEED=$s ./check.sh $id quick 2>&1); rc=$?
    line=$(echo "$out" | grep -E "tier=" | tail -1)
    if [ $rc -ne 0 ] || echo "$out" | grep -q VIOLATION; then echo "ALARM seed=$s $id rc=$rc :: $(echo "$out" | grep -E 'failure|VIOLATION' | head -3 | tr '\n' ' ' | cut -c1-400)"; else echo "ok seed=$s $line"; fi
  done
done

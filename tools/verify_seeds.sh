#!/bin/bash
# Independent confirmation of every seeded change in a scratch worktree of /repo (never in /repo):
#   1. the patch applies, the project builds and the 142 existing tests pass with it,
#   2. the demonstration fails with the patch, 3. the demonstration passes without it.
# Writes /verif/seeded/<n>/verified.json. Usage: tools/verify_seeds.sh [<seed dir name>...]
set -u
WT=/tmp/wt/verify
export CARGO_NET_OFFLINE=true
if [ ! -d "$WT" ]; then git -C /repo worktree add -q "$WT" HEAD || exit 2; fi
cd "$WT" || exit 2
SEEDS=${@:-$(ls /verif/seeded | grep -E '^C[0-9]+-[0-9]+$')}

clean() { git checkout -q -- . ; git clean -fdq -- lsp4spl spl_frontend; }

run_demo() { # $1 = seed dir; returns 0 if the demonstration passes
    local d="$1" n; n=$(basename "$d")
    local py; py=$(ls "$d"/*.py 2>/dev/null | head -1)
    if [ -n "$py" ]; then
        local feat=""
        grep -q "features verif" "$py" "$d/demo.md" 2>/dev/null && feat="--features verif"
        cargo build -q --release -p lsp4spl --offline $feat 2>/dev/null || return 2
        LSP4SPL_BIN="$WT/target/release/lsp4spl" timeout 600 python3 "$py" "$WT/target/release/lsp4spl" >/tmp/verify_demo.out 2>&1
        return $?
    fi
    local f; f=$(ls "$d"/*.rs | head -1); local mod; mod=$(basename "$f" .rs)
    if grep -qE "spl_frontend/tests" "$d/demo.md"; then
        mkdir -p spl_frontend/tests; cp "$f" spl_frontend/tests/
        timeout 900 cargo test -q -p spl_frontend --offline --test "$mod" >/tmp/verify_demo.out 2>&1
        local rc=$?; rm -f "spl_frontend/tests/$mod.rs"; return $rc
    fi
    cp "$f" lsp4spl/src/features/tests/
    grep -q "^mod $mod;" lsp4spl/src/features/tests/mod.rs || printf 'mod %s;\n' "$mod" >> lsp4spl/src/features/tests/mod.rs
    timeout 900 cargo test -q -p lsp4spl --offline "$mod" >/tmp/verify_demo.out 2>&1
    local rc=$?
    rm -f "lsp4spl/src/features/tests/$mod.rs"; git checkout -q -- lsp4spl/src/features/tests/mod.rs
    return $rc
}

for n in $SEEDS; do
    d=/verif/seeded/$n
    clean
    if ! git apply --check "$d/patch.diff" 2>/dev/null; then echo "$n: patch does not apply"; continue; fi
    git apply "$d/patch.diff"
    suite=$(timeout 1800 cargo test --workspace --offline 2>&1 | grep -E "^test result" | awk '{p+=$4; f+=$6} END {print p" "f}')
    passed=${suite% *}; failed=${suite#* }
    run_demo "$d"; with=$?
    clean
    run_demo "$d"; without=$?
    clean
    ok=false
    [ "$passed" = "142" ] && [ "$failed" = "0" ] && [ $with -ne 0 ] && [ $with -ne 2 ] && [ $without -eq 0 ] && ok=true
    echo "$n: suite passed=$passed failed=$failed demo_with_patch_exit=$with demo_without_patch_exit=$without confirmed=$ok"
    cat > "$d/verified.json" <<EOF
{"seed": "$n", "existing_tests_passed_with_patch": $passed, "existing_tests_failed_with_patch": $failed, "demonstration_exit_with_patch": $with, "demonstration_exit_without_patch": $without, "confirmed": $ok, "how": "tools/verify_seeds.sh in a scratch worktree of /repo at $(git -C /repo log --format=%h -1)"}
EOF
done
clean
